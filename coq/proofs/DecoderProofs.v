(* C08: the texture/array/cube iterator and the Decoder operations refine a cursor over the
   flattened surface list. *)
From DDSV Require Import base.Machine model.Layout model.DecoderSM model.EncoderSM spec.SpecLayout proofs.LayoutProofs.

(* ------------------------------------------------------------ facts about one mip chain *)
Lemma spec_mips_length p w h : forall n level off, length (spec_mips p w h level n off) = n.
Proof. induction n as [|n IH]; intros; cbn [spec_mips length]; [reflexivity|]. rewrite IH. reflexivity. Qed.

Lemma sum_lens_split p w h : forall n level k, (k <= n)%nat ->
  sum_lens p w h level n = sum_lens p w h level k + sum_lens p w h (level + N.of_nat k) (n - k).
Proof.
  induction n as [|n IH]; intros level k Hk.
  - replace k with 0%nat by lia. cbn. reflexivity.
  - destruct k as [|k].
    + cbn [sum_lens]. rewrite N.add_0_r. cbn [Nat.sub]. reflexivity.
    + cbn [sum_lens Nat.sub]. rewrite (IH (level + 1) k) by lia.
      replace (level + 1 + N.of_nat k) with (level + N.of_nat (S k)) by lia. lia.
Qed.
Lemma sum_lens_le p w h n level k : (k <= n)%nat -> sum_lens p w h level k <= sum_lens p w h level n.
Proof. intros Hk. rewrite (sum_lens_split p w h n level k Hk). lia. Qed.

Lemma spec_mips_nth p w h : forall n level off k, (k < n)%nat ->
  nth_error (spec_mips p w h level n off) k =
  Some (mkSurf (mip_dim w (level + N.of_nat k)) (mip_dim h (level + N.of_nat k)) (off + sum_lens p w h level k)
               (spec_len p (mip_dim w (level + N.of_nat k)) (mip_dim h (level + N.of_nat k)))).
Proof.
  induction n as [|n IH]; intros level off k Hk; [lia|].
  destruct k as [|k]; cbn [spec_mips nth_error sum_lens].
  - rewrite !N.add_0_r. reflexivity.
  - rewrite IH by lia. replace (level + 1 + N.of_nat k) with (level + N.of_nat (S k)) by lia.
    rewrite N.add_assoc. reflexivity.
Qed.

Lemma sum64_spec_mips p w h : forall n level off base,
  base + sum_lens p w h level n < U64 ->
  sum64 (map s_len (spec_mips p w h level n off)) base = Some (base + sum_lens p w h level n).
Proof.
  induction n as [|n IH]; intros level off base Hfit; cbn [spec_mips map sum64 sum_lens] in *.
  - f_equal. lia.
  - unfold unchecked_add64, checked_add64. cbn [s_len].
    replace (base + spec_len p (mip_dim w level) (mip_dim h level) <? U64) with true by (symmetry; apply N.ltb_lt; lia).
    cbn [obind]. rewrite IH by lia. f_equal. lia.
Qed.
Lemma firstn_spec_mips p w h : forall n level off k, (k <= n)%nat ->
  firstn k (spec_mips p w h level n off) = spec_mips p w h level k off.
Proof.
  induction n as [|n IH]; intros level off k Hk.
  - replace k with 0%nat by lia. reflexivity.
  - destruct k as [|k]; cbn [spec_mips firstn]; [reflexivity|]. rewrite IH by lia. reflexivity.
Qed.
Lemma skipn_spec_mips p w h : forall n level off k, (k <= n)%nat ->
  skipn k (spec_mips p w h level n off) =
  spec_mips p w h (level + N.of_nat k) (n - k) (off + sum_lens p w h level k).
Proof.
  induction n as [|n IH]; intros level off k Hk.
  - replace k with 0%nat by lia. cbn. reflexivity.
  - destruct k as [|k]; cbn [spec_mips skipn sum_lens Nat.sub].
    + rewrite !N.add_0_r. reflexivity.
    + rewrite IH by lia. replace (level + 1 + N.of_nat k) with (level + N.of_nat (S k)) by lia.
      rewrite N.add_assoc. reflexivity.
Qed.

(* ------------------------------------------------------------ texture iterator *)
Section TexIter.
  Variables (p : pixel_info) (w h mips len : N).
  Let L := sum_lens p w h 0 (N.to_nat mips).
  Let first := mkTex w h mips p 0 (to_short_len L).
  Hypothesis Hp : wf_pixel_info p.
  Hypothesis Hm : 1 <= mips <= 255.
  Hypothesis HL : L < U64.
  Hypothesis HT : L * len < U64.

  Definition part (level : N) : N := sum_lens p w h 0 (N.to_nat level).

  Lemma part_le level : level <= mips -> part level <= L.
  Proof. intros Hl. apply sum_lens_le. lia. Qed.
  Lemma part_full : part mips = L.
  Proof. reflexivity. Qed.
  Lemma part_0 : part 0 = 0.
  Proof. reflexivity. Qed.

  Lemma first_mips : tex_iter_mips first = Some (spec_mips p w h 0 (N.to_nat mips) 0).
  Proof.
    pose proof (tex_iter_mips_inv w h mips p 0 Hp) as T. cbn zeta in T.
    rewrite N.mul_0_l in T. apply T. fold L. lia.
  Qed.
  Lemma first_len : tex_data_len first = Some L.
  Proof. apply tex_data_len_inv. exact HL. Qed.

  Definition info_at (level : N) : sinfo :=
    mkSI (mip_dim w level) (mip_dim h level) (spec_len p (mip_dim w level) (mip_dim h level)) level.

  Lemma cur_in idx level : idx < len -> level < mips ->
    iter_current (ITex first len idx level) = Some (Some (info_at level)).
  Proof.
    intros Hi Hl. cbn [iter_current]. apply N.ltb_lt in Hi. rewrite Hi.
    unfold tex_get. rewrite first_mips. cbn [obind].
    rewrite spec_mips_nth by lia. rewrite N.add_0_l, N2Nat.id. reflexivity.
  Qed.
  Lemma cur_end idx level : len <= idx -> iter_current (ITex first len idx level) = Some None.
  Proof. intros Hi. cbn [iter_current]. destruct (N.ltb_spec idx len); [lia|reflexivity]. Qed.

  (* abstract cursor: index into the flattened list *)
  Definition abs (idx level : N) : N := idx * mips + level.
  Definition inv (idx level : N) : Prop := idx <= len /\ level < mips /\ (idx = len -> level = 0).

  Lemma adv_in idx level : idx < len -> level < mips ->
    exists idx' level', iter_advance (ITex first len idx level) = Some (ITex first len idx' level') /\
      inv idx' level' /\ abs idx' level' = abs idx level + 1.
  Proof.
    intros Hi Hl. cbn [iter_advance]. apply N.ltb_lt in Hi. rewrite Hi. apply N.ltb_lt in Hi.
    replace (level + 1 <? U8) with true by (symmetry; apply N.ltb_lt; unfold U8; lia).
    cbn [t_mips first]. destruct (N.ltb_spec (level + 1) mips) as [Hn|Hn].
    - exists idx, (level + 1). split; [reflexivity|]. unfold inv, abs. split; [|lia]. lia.
    - exists (idx + 1), 0. split; [reflexivity|]. unfold inv, abs. split; [lia|].
      assert (level + 1 = mips) by lia. nia.
  Qed.
  Lemma adv_end idx level : len <= idx -> iter_advance (ITex first len idx level) = Some (ITex first len idx level).
  Proof. intros Hi. cbn [iter_advance]. destruct (N.ltb_spec idx len); [lia|reflexivity]. Qed.

  Lemma rew idx level : inv idx level ->
    exists idx' level', iter_rewind (ITex first len idx level) = Some (ITex first len idx' level') /\
      inv idx' level' /\ abs idx' level' = abs idx level - 1.
  Proof.
    intros [Hi [Hl He]]. cbn [iter_rewind]. destruct (N.ltb_spec 0 level) as [Hz|Hz].
    - exists idx, (level - 1). split; [reflexivity|]. unfold inv, abs. split; [|lia]. lia.
    - destruct (N.ltb_spec 0 idx) as [Hy|Hy].
      + cbn [t_mips first]. replace (0 <? mips) with true by (symmetry; apply N.ltb_lt; lia).
        exists (idx - 1), (mips - 1). split; [reflexivity|]. unfold inv, abs. split; [lia|]. nia.
      + exists idx, level. split; [reflexivity|]. unfold inv, abs. split; [lia|]. lia.
  Qed.

  Definition offset_of (idx level : N) : N := L * idx + part level.

  Lemma offset_le idx level : inv idx level -> offset_of idx level <= L * len.
  Proof.
    intros [Hi [Hl He]]. unfold offset_of. destruct (N.eq_dec idx len) as [->|Hne].
    - rewrite (He eq_refl). unfold part. cbn. lia.
    - pose proof (part_le level ltac:(lia)). assert (L * idx + L <= L * len) by nia. lia.
  Qed.

  Lemma elapsed idx level : inv idx level ->
    iter_elapsed (ITex first len idx level) = Some (offset_of idx level).
  Proof.
    intros Hinv. pose proof (offset_le idx level Hinv) as Hle. destruct Hinv as [Hi [Hl He]].
    cbn [iter_elapsed]. rewrite first_len. cbn [obind].
    unfold unchecked_mul64, checked_mul64.
    assert (L * idx <= L * len) by (apply N.mul_le_mono_l; lia).
    replace (L * idx <? U64) with true by (symmetry; apply N.ltb_lt; lia). cbn [obind].
    rewrite first_mips. cbn [obind]. rewrite spec_mips_length.
    replace (N.of_nat (N.to_nat mips) <? level) with false by (symmetry; apply N.ltb_ge; lia).
    rewrite firstn_spec_mips by lia. rewrite sum64_spec_mips; [reflexivity|].
    unfold offset_of, part in Hle. lia.
  Qed.

  Lemma skip_in idx level : idx < len -> 0 < level < mips ->
    iter_skip_mipmaps (ITex first len idx level) = SkipOk (ITex first len (idx + 1) 0) (L - part level).
  Proof.
    intros Hi Hl. cbn [iter_skip_mipmaps]. apply N.ltb_lt in Hi. rewrite Hi.
    replace (level =? 0) with false by (symmetry; apply N.eqb_neq; lia). cbn [negb andb].
    rewrite first_mips. rewrite skipn_spec_mips by lia.
    pose proof (sum_lens_split p w h (N.to_nat mips) 0 (N.to_nat level) ltac:(lia)) as S. fold L in S.
    rewrite sum64_spec_mips.
    - rewrite N.add_0_l. f_equal. unfold part. lia.
    - lia.
  Qed.
  Lemma skip_noop idx level : (len <= idx \/ level = 0) ->
    iter_skip_mipmaps (ITex first len idx level) = SkipOk (ITex first len idx level) 0.
  Proof.
    intros H. cbn [iter_skip_mipmaps].
    destruct (N.ltb_spec idx len); destruct (N.eqb_spec level 0); cbn [negb andb]; try reflexivity; lia.
  Qed.

  (* ---------------------------------------------------------- decoder over a texture layout *)
  Variable Lay : layout.
  Hypothesis HLay : iter_new Lay = ITex first len 0 0.

  (* ---- the specification: a cursor i over the flattened surface list of len*mips surfaces *)
  Definition total : N := len * mips.
  Inductive cres := COk | CErr (e : dec_err).
  Definition c_consume (i : N) (bad : bool) (e : dec_err) : cres * N :=
    if total <=? i then (CErr ENoMoreSurfaces, i) else if bad then (CErr e, i) else (COk, i + 1).
  Definition c_skip_mips (i : N) : N :=
    if (i <? total) && negb (i mod mips =? 0) then (i / mips + 1) * mips else i.
  Definition c_offset (i : N) : N := offset_of (i / mips) (i mod mips).

  Definition rel (d : decoder) (i : N) : Prop :=
    d_layout d = Lay /\ exists idx level, d_it d = ITex first len idx level /\ inv idx level /\
      d_pos d = offset_of idx level /\ abs idx level = i.

  Lemma abs_divmod idx level : level < mips -> abs idx level / mips = idx /\ abs idx level mod mips = level.
  Proof.
    intros Hl. unfold abs. split.
    - rewrite N.div_add_l by lia. rewrite N.div_small by lia. lia.
    - rewrite N.add_comm, N.mod_add by lia. apply N.mod_small. exact Hl.
  Qed.
  Lemma abs_lt idx level : inv idx level -> (abs idx level < total <-> idx < len).
  Proof.
    intros [Hi [Hl He]]. unfold abs, total. split; intros H.
    - destruct (N.eq_dec idx len) as [->|]; [nia|lia].
    - assert (idx * mips + mips <= len * mips) by nia. lia.
  Qed.
  Lemma rel_le d i : rel d i -> i <= total.
  Proof.
    intros [_ [idx [level [_ [Hinv [_ Ha]]]]]]. subst i. destruct Hinv as [Hi [Hl He]].
    destruct (N.eq_dec idx len) as [E|E].
    - rewrite (He E). subst. unfold abs, total. lia.
    - assert (abs idx level < total) by (apply abs_lt; [repeat split; assumption|lia]). lia.
  Qed.

  Lemma rel_init : rel (dec_init Lay) 0.
  Proof.
    unfold rel, dec_init. cbn [d_layout d_it d_pos]. split; [reflexivity|].
    exists 0, 0. rewrite HLay. split; [reflexivity|]. split; [unfold inv; lia|].
    unfold offset_of, part, abs. cbn. lia.
  Qed.

  (* what the decoder reports at cursor i *)
  Lemma rel_observe d i : rel d i ->
    d_pos d = c_offset i /\
    iter_current (d_it d) = Some (if i <? total then Some (info_at (i mod mips)) else None).
  Proof.
    intros [_ [idx [level [Hit [Hinv [Hpos Ha]]]]]]. pose proof Hinv as [Hi [Hl He]].
    destruct (abs_divmod idx level Hl) as [Hdv Hmo]. rewrite Ha in Hdv, Hmo.
    unfold c_offset. rewrite Hdv, Hmo. split; [exact Hpos|]. rewrite Hit.
    pose proof (abs_lt idx level Hinv) as Hlt. rewrite Ha in Hlt.
    destruct (N.ltb_spec i total) as [H|H].
    - apply cur_in; [apply Hlt; exact H|exact Hl].
    - apply cur_end. destruct (N.lt_ge_cases idx len) as [H'|H']; [|exact H']. apply Hlt in H'. lia.
  Qed.

  Lemma offset_step idx level : idx < len -> level < mips ->
    forall idx' level', abs idx' level' = abs idx level + 1 -> inv idx' level' ->
    offset_of idx' level' = offset_of idx level + spec_len p (mip_dim w level) (mip_dim h level).
  Proof.
    intros Hi Hl idx' level' Ha [Hi' [Hl' He']]. unfold abs, offset_of in *.
    assert (C : (idx' = idx /\ level' = level + 1) \/ (idx' = idx + 1 /\ level' = 0 /\ level + 1 = mips)).
    { destruct (N.lt_ge_cases (level + 1) mips) as [Hn|Hn].
      - left. apply (N.div_mod_unique mips idx' idx level' (level + 1)); lia.
      - right. assert (level + 1 = mips) by lia.
        destruct (N.div_mod_unique mips idx' (idx + 1) level' 0) as [A B]; lia. }
    destruct C as [[-> ->]|[-> [-> Hfull]]].
    - unfold part. replace (N.to_nat (level + 1)) with (S (N.to_nat level)) by lia.
      rewrite (sum_lens_split p w h (S (N.to_nat level)) 0 (N.to_nat level)) by lia.
      replace (S (N.to_nat level) - N.to_nat level)%nat with 1%nat by lia.
      cbn [sum_lens]. rewrite N.add_0_l, N2Nat.id. lia.
    - unfold part at 1. cbn [N.to_nat sum_lens]. 
      assert (part level + spec_len p (mip_dim w level) (mip_dim h level) = L).
      { unfold L. rewrite (sum_lens_split p w h (N.to_nat mips) 0 (N.to_nat level)) by lia.
        replace (N.to_nat mips - N.to_nat level)%nat with 1%nat by lia.
        cbn [sum_lens]. rewrite N.add_0_l, N2Nat.id. unfold part. lia. }
      lia.
  Qed.

  (* a successful read / rect read / skip moves the cursor by one and the reader by the surface length *)
  Lemma consume_step d i : rel d i -> i < total ->
    exists it', iter_advance (d_it d) = Some it' /\
      rel (mkDec (d_layout d) it' (d_pos d + si_len (info_at (i mod mips)))) (i + 1).
  Proof.
    intros [Hlay [idx [level [Hit [Hinv [Hpos Ha]]]]]] Hlt. pose proof Hinv as [Hi' [Hl He]].
    assert (Hi : idx < len) by (apply (abs_lt idx level Hinv); rewrite Ha; exact Hlt).
    destruct (abs_divmod idx level Hl) as [_ Hmo]. rewrite Ha in Hmo. rewrite Hmo.
    destruct (adv_in idx level Hi Hl) as [idx' [level' [Hadv [Hinv' Habs]]]].
    rewrite Hit. exists (ITex first len idx' level'). split; [exact Hadv|].
    unfold rel. cbn [d_layout d_it d_pos]. split; [exact Hlay|].
    exists idx', level'. split; [reflexivity|]. split; [exact Hinv'|]. split; [|lia].
    rewrite Hpos. cbn [si_len info_at]. symmetry. apply (offset_step idx level Hi Hl idx' level' Habs Hinv').
  Qed.

  Lemma c_offset_le d i : rel d i -> d_pos d <= L * len.
  Proof. intros [_ [idx [level [_ [Hinv [Hpos _]]]]]]. rewrite Hpos. apply offset_le. exact Hinv. Qed.

  (* outcome of one decoder operation against the spec cursor: same verdict, same next cursor;
     an I/O refusal (a seek amount above i64::MAX) is the only other possibility and needs a data
     section larger than i64::MAX bytes *)
  Definition agrees (r : dres) (d : decoder) (c : cres * N) : Prop :=
    match r with
    | DOk d' => fst c = COk /\ rel d' (snd c)
    | DErr EIo _ => I64MAX < L * len
    | DErr e d' => fst c = CErr e /\ d' = d
    | DPanic => False
    end.

  Lemma read_ok d i ws : rel d i -> agrees (read_current d ws) d (c_consume i ws EUnexpectedSurfaceSize).
  Proof.
    intros Hrel. destruct (rel_observe d i Hrel) as [_ Hcur]. unfold read_current, c_consume. rewrite Hcur.
    destruct (N.ltb_spec i total) as [Hi|Hi]; destruct (N.leb_spec total i) as [Hj|Hj]; try lia.
    - destruct ws; [cbn; auto|].
      destruct (consume_step d i Hrel Hi) as [it' [Ha Hd]]. rewrite Ha. cbn. split; [reflexivity|exact Hd].
    - cbn. auto.
  Qed.
  Lemma rect_ok d i oob : rel d i -> agrees (rect_current d oob) d (c_consume i oob ERectOutOfBounds).
  Proof.
    intros Hrel. destruct (rel_observe d i Hrel) as [_ Hcur]. unfold rect_current, c_consume. rewrite Hcur.
    destruct (N.ltb_spec i total) as [Hi|Hi]; destruct (N.leb_spec total i) as [Hj|Hj]; try lia.
    - destruct oob; [cbn; auto|].
      destruct (consume_step d i Hrel Hi) as [it' [Ha Hd]]. rewrite Ha. cbn. split; [reflexivity|exact Hd].
    - cbn. auto.
  Qed.
  Lemma skip_ok d i : rel d i -> agrees (skip_surface d) d (c_consume i false EIo).
  Proof.
    intros Hrel. destruct (rel_observe d i Hrel) as [_ Hcur]. unfold skip_surface, c_consume. rewrite Hcur.
    destruct (N.ltb_spec i total) as [Hi|Hi]; destruct (N.leb_spec total i) as [Hj|Hj]; try lia.
    - destruct (consume_step d i Hrel Hi) as [it' [Ha Hd]]. unfold io_skip.
      destruct (N.eqb_spec (si_len (info_at (i mod mips))) 0) as [Hz|Hz].
      + rewrite Ha. rewrite Hz, N.add_0_r in Hd. cbn. split; [reflexivity|exact Hd].
      + pose proof (c_offset_le _ _ Hd) as Hb. cbn [d_pos] in Hb.
        destruct (N.ltb_spec I64MAX (si_len (info_at (i mod mips)))); [cbn; lia|].
        destruct (N.ltb_spec (d_pos d + si_len (info_at (i mod mips))) U64); [|cbn; lia].
        rewrite Ha. cbn. split; [reflexivity|exact Hd].
    - cbn. auto.
  Qed.

  Lemma skip_mips_ok d i : rel d i -> agrees (skip_mipmaps d) d (COk, c_skip_mips i).
  Proof.
    intros Hrel. pose proof Hrel as [Hlay [idx [level [Hit [Hinv [Hpos Ha]]]]]].
    unfold skip_mipmaps, c_skip_mips. rewrite Hit. pose proof Hinv as [Hi [Hl He]].
    destruct (abs_divmod idx level Hl) as [Hdv Hmo]. rewrite Ha in Hdv, Hmo. rewrite Hdv, Hmo.
    pose proof (abs_lt idx level Hinv) as Hlt. rewrite Ha in Hlt.
    destruct (N.lt_ge_cases idx len) as [Hlt'|Hge]; [destruct (N.eq_dec level 0) as [Hz|Hz]|].
    - rewrite skip_noop by (right; exact Hz). cbn [io_skip N.eqb].
      replace (level =? 0) with true by (symmetry; apply N.eqb_eq; exact Hz).
      rewrite andb_false_r. cbn. split; [reflexivity|].
      unfold rel. cbn [d_layout d_it d_pos]. split; [exact Hlay|]. exists idx, level. repeat split; try assumption.
    - rewrite skip_in by lia. unfold io_skip.
      replace (i <? total) with true by (symmetry; apply N.ltb_lt; apply Hlt; exact Hlt').
      replace (level =? 0) with false by (symmetry; apply N.eqb_neq; exact Hz). cbn [andb negb].
      pose proof (part_le level ltac:(lia)) as Hpl.
      assert (Hnew : rel (mkDec (d_layout d) (ITex first len (idx + 1) 0) (d_pos d + (L - part level))) ((idx + 1) * mips)).
      { unfold rel. cbn [d_layout d_it d_pos]. split; [exact Hlay|]. exists (idx + 1), 0.
        split; [reflexivity|]. split; [unfold inv; lia|]. split; [|unfold abs; lia]. rewrite Hpos. unfold offset_of.
        rewrite part_0, N.mul_add_distr_l, N.mul_1_r. lia. }
      destruct (N.eqb_spec (L - part level) 0) as [Hz0|Hz0];
        [|pose proof (c_offset_le _ _ Hnew) as Hb; cbn [d_pos] in Hb;
          destruct (N.ltb_spec I64MAX (L - part level)); [cbn; lia|]; destruct (N.ltb_spec (d_pos d + (L - part level)) U64); [|cbn; lia]].
      + cbn. split; [reflexivity|]. rewrite Hz0, N.add_0_r in Hnew. exact Hnew.
      + cbn. split; [reflexivity|]. exact Hnew.
    - rewrite skip_noop by (left; exact Hge). cbn [io_skip N.eqb].
      replace (i <? total) with false by (symmetry; apply N.ltb_ge; destruct (N.lt_ge_cases i total) as [H'|H']; [apply Hlt in H'; lia|exact H']).
      cbn. split; [reflexivity|].
      unfold rel. cbn [d_layout d_it d_pos]. split; [exact Hlay|]. exists idx, level. repeat split; try assumption.
  Qed.

  Lemma inv_lt idx level idx' level' : inv idx level -> inv idx' level' -> abs idx' level' < abs idx level -> idx' < len.
  Proof.
    intros [Hi [Hl He]] [Hi' [Hl' He']] Ha. unfold abs in Ha.
    destruct (N.eq_dec idx' len) as [E|E]; [|lia].
    rewrite (He' E) in Ha. subst idx'. nia.
  Qed.

  Lemma rewind_prev_ok d i : rel d i ->
    match rewind_prev d with DOk d' => rel d' (i - 1) | DErr EIo _ => I64MAX < L * len | _ => False end.
  Proof.
    intros [Hlay [idx [level [Hit [Hinv [Hpos Hi]]]]]]. unfold rewind_prev. rewrite Hit.
    rewrite (elapsed idx level Hinv).
    destruct (rew idx level Hinv) as [idx' [level' [Hr [Hinv' Habs]]]]. rewrite Hr.
    rewrite (elapsed idx' level' Hinv').
    assert (Hle : offset_of idx' level' <= offset_of idx level).
    { destruct (N.eq_dec (abs idx level) 0) as [Hz|Hz].
      - unfold abs in *. assert (idx = 0 /\ level = 0) as [-> ->] by nia.
        assert (idx' = 0 /\ level' = 0) as [-> ->] by nia. lia.
      - assert (Hlt : idx' < len) by (apply (inv_lt idx level idx' level' Hinv Hinv'); lia).
        pose proof (offset_step idx' level' Hlt ltac:(apply Hinv') idx level ltac:(lia) Hinv) as S.
        lia. }
    replace (offset_of idx level <? offset_of idx' level') with false by (symmetry; apply N.ltb_ge; exact Hle).
    unfold seek_back.
    pose proof (offset_le idx level Hinv) as Hb.
    destruct (N.ltb_spec I64MAX (offset_of idx level - offset_of idx' level')) as [Hbig|Hbig]; [lia|].
    rewrite Hpos.
    replace (offset_of idx level - offset_of idx' level' <=? offset_of idx level) with true by (symmetry; apply N.leb_le; lia).
    unfold rel. cbn [d_layout d_it d_pos]. split; [exact Hlay|]. exists idx', level'.
    split; [reflexivity|]. split; [exact Hinv'|]. split; [lia|]. lia.
  Qed.

  Lemma rewind_start_ok d i : rel d i ->
    match rewind_start d with DOk d' => d' = dec_init Lay | DErr EIo d' => d' = d /\ I64MAX < L * len | _ => False end.
  Proof.
    intros [Hlay [idx [level [Hit [Hinv [Hpos _]]]]]]. unfold rewind_start. rewrite Hit.
    rewrite (elapsed idx level Hinv). unfold seek_back.
    pose proof (offset_le idx level Hinv) as Hb.
    destruct (N.ltb_spec I64MAX (offset_of idx level)) as [Hbig|Hbig]; [split; [reflexivity|lia]|].
    rewrite Hpos. rewrite N.leb_refl. rewrite N.sub_diag. rewrite Hlay. reflexivity.
  Qed.

  (* ---- cube-map reads *)
  Hypothesis HLayA : forall a, Lay = LArray a -> a_w a = w /\ a_h a = h.

  Fixpoint c_cube (faces : list (N * N * N)) (i : N) (acc : list (N * N * N)) : cres * N * list (N * N * N) :=
    match faces with
    | [] => (COk, i, acc)
    | (_, x, y) :: rest =>
        if total <=? i then (CErr ENoMoreSurfaces, i, acc) else
        let lv := i mod mips in
        if negb ((mip_dim w lv =? w) && (mip_dim h lv =? h)) then (CErr EUnexpectedSurfaceSize, i, acc) else
        c_cube rest (c_skip_mips (i + 1)) (acc ++ [(x, y, i / mips)])
    end.
  Definition c_read_cube (i : N) (ws : bool) : cres * N * list (N * N * N) :=
    match layout_cube_faces Lay with
    | None => (CErr ENotACubeMap, i, [])
    | Some faces =>
        if ws || negb ((w * 4 <? U32) && (h * 3 <? U32)) then (CErr EUnexpectedSurfaceSize, i, [])
        else c_cube (filter (fun f => has_bits faces (fst (fst f))) face_table) i []
    end.

  Definition agrees3 (rc : dres * list (N * N * N)) (c : cres * N * list (N * N * N)) : Prop :=
    match fst rc with
    | DOk d' => fst (fst c) = COk /\ rel d' (snd (fst c)) /\ snd rc = snd c
    | DErr EIo _ => I64MAX < L * len
    | DErr e d' => fst (fst c) = CErr e /\ rel d' (snd (fst c)) /\ snd rc = snd c
    | DPanic => False
    end.

  Lemma cube_loop_ok faces : forall d i acc, rel d i -> agrees3 (cube_loop faces w h d acc) (c_cube faces i acc).
  Proof.
    induction faces as [|[[fb x] y] rest IH]; intros d i acc Hrel.
    - cbn. auto.
    - cbn [cube_loop c_cube]. destruct (rel_observe d i Hrel) as [_ Hcur]. rewrite Hcur.
      destruct (N.ltb_spec i total) as [Hi|Hi]; destruct (N.leb_spec total i) as [Hj|Hj]; try lia.
      2:{ cbn. auto. }
      cbn [si_w si_h info_at].
      destruct (negb ((mip_dim w (i mod mips) =? w) && (mip_dim h (i mod mips) =? h))); [cbn; auto|].
      assert (Helem : match d_it d with ITex _ _ idx _ => idx | _ => 0 end = i / mips).
      { destruct Hrel as [_ [idx [level [Hit [Hinv [_ Ha]]]]]]. rewrite Hit.
        destruct (abs_divmod idx level ltac:(apply Hinv)) as [Hdv _]. rewrite Ha in Hdv. symmetry. exact Hdv. }
      rewrite Helem.
      pose proof (read_ok d i false Hrel) as Hr. unfold c_consume in Hr.
      destruct (N.leb_spec total i); [lia|]. cbn [fst snd] in Hr.
      destruct (read_current d false) as [d1|e d1|]; [| |exact Hr].
      + cbn in Hr. destruct Hr as [_ Hrel1].
        pose proof (skip_mips_ok d1 (i + 1) Hrel1) as Hs.
        destruct (skip_mipmaps d1) as [d2|e d2|]; [| |exact Hs].
        * cbn in Hs. destruct Hs as [_ Hrel2]. apply IH. exact Hrel2.
        * destruct e; cbn in Hs; try (destruct Hs as [Hs _]; discriminate Hs). cbn. exact Hs.
      + destruct e; cbn in Hr; try (destruct Hr as [Hr _]; discriminate Hr). cbn. exact Hr.
  Qed.

  Lemma read_cube_ok d i ws : rel d i -> agrees3 (read_cube_map d ws) (c_read_cube i ws).
  Proof.
    intros Hrel. pose proof Hrel as [Hlay _]. unfold read_cube_map, c_read_cube. rewrite Hlay.
    destruct (layout_cube_faces Lay) as [faces|] eqn:Hf.
    - destruct Lay as [t|v|a] eqn:HL'; try discriminate Hf.
      destruct (HLayA a eq_refl) as [-> ->].
      destruct (ws || negb ((w * 4 <? U32) && (h * 3 <? U32))).
      + cbn. auto.
      + apply cube_loop_ok. exact Hrel.
    - cbn. auto.
  Qed.

  (* ---- one step and whole runs *)
  Definition c_step (i : N) (op : dec_op) : cres * N * list (N * N * N) :=
    match op with
    | OpRead ws => (c_consume i ws EUnexpectedSurfaceSize, [])
    | OpRect oob => (c_consume i oob ERectOutOfBounds, [])
    | OpSkip => (c_consume i false EIo, [])
    | OpSkipMips => ((COk, c_skip_mips i), [])
    | OpRewindPrev => ((COk, i - 1), [])
    | OpRewindStart => ((COk, 0), [])
    | OpCube ws => c_read_cube i ws
    end.
  Definition is_cube (op : dec_op) : bool := match op with OpCube _ => true | _ => false end.

  Lemma dec_err_eq (a b : dec_err) : {a = b} + {a <> b}.
  Proof. decide equality. Qed.

  Lemma c_consume_err i bad e e' : fst (c_consume i bad e) = CErr e' -> snd (c_consume i bad e) = i.
  Proof. unfold c_consume. destruct (total <=? i); [reflexivity|]. destruct bad; [reflexivity|discriminate]. Qed.

  Lemma lift r d i c : rel d i -> agrees r d c -> (forall e, fst c = CErr e -> snd c = i) ->
    agrees3 (r, []) (c, []) /\ (forall e d', r = DErr e d' -> e <> EIo -> d' = d /\ snd c = i).
  Proof.
    intros Hrel Ha Hc. unfold agrees3. cbn [fst snd]. destruct r as [d1|e d1|]; cbn in Ha.
    - split; [tauto|discriminate].
    - assert (G : e <> EIo -> fst c = CErr e /\ d1 = d) by (intros; destruct e; try congruence; exact Ha).
      destruct (dec_err_eq e EIo) as [->|Hne].
      + split; [exact Ha|]. intros e0 d0 E Hne. injection E as E1 E2. congruence.
      + destruct (G Hne) as [G1 G2]. subst d1. pose proof (Hc _ G1) as Hi. split.
        * destruct e; try congruence; (split; [exact G1|split; [rewrite Hi; exact Hrel|reflexivity]]).
        * intros e0 d0 E _. injection E as E1 E2. split; [symmetry; exact E2|exact Hi].
    - contradiction.
  Qed.

  Lemma step_ok d i op : rel d i -> agrees3 (dec_step d op) (c_step i op) /\
    (is_cube op = false -> forall e d', fst (dec_step d op) = DErr e d' -> e <> EIo -> d' = d /\ snd (fst (c_step i op)) = i).
  Proof.
    intros Hrel. destruct op as [ws|oob| | | | |ws]; cbn [dec_step c_step is_cube fst snd].
    - destruct (lift _ d i _ Hrel (read_ok d i ws Hrel) (c_consume_err i ws _)) as [A B]. split; [exact A|intros _; exact B].
    - destruct (lift _ d i _ Hrel (rect_ok d i oob Hrel) (c_consume_err i oob _)) as [A B]. split; [exact A|intros _; exact B].
    - destruct (lift _ d i _ Hrel (skip_ok d i Hrel) (c_consume_err i false _)) as [A B]. split; [exact A|intros _; exact B].
    - destruct (lift _ d i (COk, c_skip_mips i) Hrel (skip_mips_ok d i Hrel) ltac:(cbn; discriminate)) as [A B]. split; [exact A|intros _; exact B].
    - pose proof (rewind_prev_ok d i Hrel) as H. unfold agrees3. cbn [fst snd]. split.
      + destruct (rewind_prev d) as [d1|e d1|]; [auto| |exact H]. destruct e; try contradiction. exact H.
      + intros _ e d' E Hne. rewrite E in H. destruct e; contradiction.
    - pose proof (rewind_start_ok d i Hrel) as H. unfold agrees3. cbn [fst snd]. split.
      + destruct (rewind_start d) as [d1|e d1|]; [subst d1; split; [reflexivity|split; [apply rel_init|reflexivity]]| |exact H].
        destruct e; try contradiction. apply H.
      + intros _ e d' E Hne. rewrite E in H. destruct e; contradiction.
    - split; [apply read_cube_ok; exact Hrel|discriminate].
  Qed.

  (* runs: the decoder and the cursor proceed in lock step; the comparison ends at an I/O refusal,
     which requires a data section above i64::MAX bytes *)
  Fixpoint sim_run (d : decoder) (i : N) (ops : list dec_op) : Prop :=
    match ops with
    | [] => True
    | op :: rest =>
        let rc := dec_step d op in
        let c := c_step i op in
        match fst rc with
        | DOk d' => fst (fst c) = COk /\ snd rc = snd c /\ rel d' (snd (fst c)) /\ sim_run d' (snd (fst c)) rest
        | DErr EIo _ => I64MAX < L * len
        | DErr e d' => fst (fst c) = CErr e /\ snd rc = snd c /\ rel d' (snd (fst c)) /\
                       (is_cube op = false -> d' = d /\ snd (fst c) = i) /\ sim_run d' (snd (fst c)) rest
        | DPanic => False
        end
    end.

  Lemma sim_run_holds ops : forall d i, rel d i -> sim_run d i ops.
  Proof.
    induction ops as [|op rest IH]; intros d i Hrel; cbn [sim_run]; [exact I|].
    destruct (step_ok d i op Hrel) as [H1 H2]. unfold agrees3 in H1.
    destruct (fst (dec_step d op)) as [d1|e d1|] eqn:E; [| |exact H1].
    - destruct H1 as [A [B C]]. split; [exact A|]. split; [exact C|]. split; [exact B|]. apply IH. exact B.
    - destruct (dec_err_eq e EIo) as [->|Hne]; [exact H1|].
      assert (G : fst (fst (c_step i op)) = CErr e /\ rel d1 (snd (fst (c_step i op))) /\ snd (dec_step d op) = snd (c_step i op))
        by (destruct e; try congruence; exact H1).
      destruct G as [A [B C]].
      assert (G' : fst (fst (c_step i op)) = CErr e /\ snd (dec_step d op) = snd (c_step i op) /\ rel d1 (snd (fst (c_step i op))) /\
                   (is_cube op = false -> d1 = d /\ snd (fst (c_step i op)) = i) /\ sim_run d1 (snd (fst (c_step i op))) rest).
      { split; [exact A|]. split; [exact C|]. split; [exact B|]. split; [|apply IH; exact B].
        intros Hc. apply (H2 Hc e d1 eq_refl Hne). }
      destruct e; try congruence; exact G'.
  Qed.
  (* ================================================================ Encoder (C11 / C10) *)
  (* iterator-only part of rel *)
  Definition it_rel (it : iter) (i : N) : Prop :=
    exists idx level, it = ITex first len idx level /\ inv idx level /\ abs idx level = i.

  Lemma it_rel_observe it i : it_rel it i ->
    iter_current it = Some (if i <? total then Some (info_at (i mod mips)) else None).
  Proof.
    intros [idx [level [-> [Hinv Ha]]]]. pose proof Hinv as [Hi [Hl He]].
    destruct (abs_divmod idx level Hl) as [Hdv Hmo]. rewrite Ha in Hdv, Hmo. rewrite Hmo.
    pose proof (abs_lt idx level Hinv) as Hlt. rewrite Ha in Hlt.
    destruct (N.ltb_spec i total) as [H|H].
    - apply cur_in; [apply Hlt; exact H|exact Hl].
    - apply cur_end. destruct (N.lt_ge_cases idx len) as [H'|H']; [|exact H']. apply Hlt in H'. lia.
  Qed.
  Lemma it_rel_le it i : it_rel it i -> i <= total.
  Proof.
    intros [idx [level [_ [Hinv Ha]]]]. subst i. destruct Hinv as [Hi [Hl He]].
    destruct (N.eq_dec idx len) as [E|E].
    - rewrite (He E). subst. unfold abs, total. lia.
    - assert (abs idx level < total) by (apply abs_lt; [repeat split; assumption|lia]). lia.
  Qed.
  Lemma it_rel_advance it i : it_rel it i -> i < total ->
    exists it', iter_advance it = Some it' /\ it_rel it' (i + 1).
  Proof.
    intros [idx [level [-> [Hinv Ha]]]] Hlt. pose proof Hinv as [Hi' [Hl He]].
    assert (Hi : idx < len) by (apply (abs_lt idx level Hinv); rewrite Ha; exact Hlt).
    destruct (adv_in idx level Hi Hl) as [idx' [level' [Hadv [Hinv' Habs]]]].
    exists (ITex first len idx' level'). split; [exact Hadv|]. exists idx', level'. repeat split; try apply Hinv'. lia.
  Qed.
  Lemma c_offset_step i : i < total ->
    c_offset (i + 1) = c_offset i + si_len (info_at (i mod mips)).
  Proof.
    intros Hlt. unfold c_offset.
    pose proof (N.div_mod i mips ltac:(lia)) as E. pose proof (N.mod_lt i mips ltac:(lia)) as Hl.
    assert (Hq : i / mips < len) by (apply N.div_lt_upper_bound; unfold total in Hlt; lia).
    pose proof (N.div_mod (i + 1) mips ltac:(lia)) as E'. pose proof (N.mod_lt (i + 1) mips ltac:(lia)) as Hl'.
    assert (Hinv' : inv ((i + 1) / mips) ((i + 1) mod mips)).
    { unfold inv. assert ((i + 1) / mips <= len).
      { apply N.lt_succ_r. apply N.div_lt_upper_bound; [lia|]. unfold total in Hlt. nia. }
      repeat split; try assumption. intros Heq. unfold total in Hlt. nia. }
    cbn [si_len info_at].
    apply (offset_step (i / mips) (i mod mips) Hq Hl); [|exact Hinv']. unfold abs. lia.
  Qed.

  (* ---- mipmap generation *)
  Variable mul : N * N.
  Definition bad (level : N) : bool := bad_size mul (info_at level).
  (* scanning levels level .. level+n-1: how many are written before the first refused one, and was one refused *)
  Fixpoint scan (level : N) (n : nat) : N * bool :=
    match n with
    | O => (0, false)
    | S n' => if bad level then (0, true) else (fst (scan (level + 1) n') + 1, snd (scan (level + 1) n'))
    end.
  Lemma scan_le level n : fst (scan level n) <= N.of_nat n.
  Proof.
    revert level; induction n as [|n IH]; intros level; cbn [scan]; [cbn; lia|].
    destruct (bad level); cbn [fst]; [lia|]. specialize (IH (level + 1)). lia.
  Qed.

  (* position reached from (idx, level) after k more levels of the same texture *)
  Definition after (idx level k : N) : N * N := if level + k <? mips then (idx, level + k) else (idx + 1, 0).
  Lemma after_inv idx level k : idx < len -> level + k <= mips -> inv (fst (after idx level k)) (snd (after idx level k)).
  Proof. intros Hi Hk. unfold after, inv. destruct (N.ltb_spec (level + k) mips); cbn [fst snd]; lia. Qed.
  Lemma after_abs idx level k : level + k <= mips -> abs (fst (after idx level k)) (snd (after idx level k)) = abs idx level + k.
  Proof. intros Hk. unfold after, abs. destruct (N.ltb_spec (level + k) mips); cbn [fst snd]; nia. Qed.
  Lemma after_offset idx level k : level + k <= mips ->
    offset_of (fst (after idx level k)) (snd (after idx level k)) = offset_of idx level + sum_lens p w h level (N.to_nat k).
  Proof.
    intros Hk. unfold after, offset_of, part.
    pose proof (sum_lens_split p w h (N.to_nat (level + k)) 0 (N.to_nat level) ltac:(lia)) as S.
    rewrite N.add_0_l, N2Nat.id in S. replace (N.to_nat (level + k) - N.to_nat level)%nat with (N.to_nat k) in S by lia.
    destruct (N.ltb_spec (level + k) mips); cbn [fst snd].
    - lia.
    - assert (level + k = mips) by lia. cbn [N.to_nat sum_lens].
      replace (N.to_nat (level + k)) with (N.to_nat mips) in S by lia. fold L in S. lia.
  Qed.

  Lemma gen_one fuel idx level bytes : idx < len -> 1 <= level < mips ->
    gen_loop (S fuel) mul (ITex first len idx level) bytes =
    if bad level then Some (ITex first len idx level, bytes, Some XInvalidSize)
    else if level + 1 <? mips then gen_loop fuel mul (ITex first len idx (level + 1)) (bytes + si_len (info_at level))
    else gen_loop fuel mul (ITex first len (idx + 1) 0) (bytes + si_len (info_at level)).
  Proof.
    intros Hi Hl. cbn [gen_loop]. rewrite cur_in by lia. cbn [si_level info_at].
    replace (level =? 0) with false by (symmetry; apply N.eqb_neq; lia).
    fold (info_at level). fold (bad level). destruct (bad level); [reflexivity|].
    cbn [iter_advance]. replace (idx <? len) with true by (symmetry; apply N.ltb_lt; exact Hi).
    replace (level + 1 <? U8) with true by (symmetry; apply N.ltb_lt; unfold U8; lia).
    cbn [t_mips first]. destruct (level + 1 <? mips); reflexivity.
  Qed.
  Lemma gen_stop fuel idx bytes : gen_loop (S fuel) mul (ITex first len idx 0) bytes = Some (ITex first len idx 0, bytes, None).
  Proof.
    cbn [gen_loop]. destruct (N.lt_ge_cases idx len) as [Hin|Hout].
    - rewrite cur_in by lia. cbn [si_level info_at N.eqb]. reflexivity.
    - rewrite cur_end by lia. reflexivity.
  Qed.
  Lemma gen_loop_spec n : forall fuel idx level bytes, idx < len -> 1 <= level -> level + N.of_nat (S n) = mips -> (S n < fuel)%nat ->
    gen_loop fuel mul (ITex first len idx level) bytes =
    Some (ITex first len (fst (after idx level (fst (scan level (S n))))) (snd (after idx level (fst (scan level (S n))))),
          bytes + sum_lens p w h level (N.to_nat (fst (scan level (S n)))),
          if snd (scan level (S n)) then Some XInvalidSize else None).
  Proof.
    induction n as [|n IH]; intros fuel idx level bytes Hi Hl Hn Hf.
    - destruct fuel as [|[|fuel]]; try lia. rewrite gen_one by lia. cbn [scan].
      destruct (bad level); cbn [fst snd].
      + unfold after. rewrite N.add_0_r. replace (level <? mips) with true by (symmetry; apply N.ltb_lt; lia).
        cbn [fst snd N.to_nat sum_lens]. rewrite N.add_0_r. reflexivity.
      + destruct (N.ltb_spec (level + 1) mips); [lia|]. rewrite gen_stop.
        unfold after. replace (level + (0 + 1) <? mips) with false by (symmetry; apply N.ltb_ge; lia).
        cbn [fst snd]. replace (N.to_nat (0 + 1)) with 1%nat by lia. cbn [sum_lens si_len info_at]. rewrite N.add_0_r. reflexivity.
    - destruct fuel as [|fuel]; [lia|]. rewrite gen_one by lia.
      change (scan level (S (S n))) with (if bad level then (0, true) else (fst (scan (level + 1) (S n)) + 1, snd (scan (level + 1) (S n)))).
      destruct (bad level); cbn [fst snd].
      + unfold after. rewrite N.add_0_r. replace (level <? mips) with true by (symmetry; apply N.ltb_lt; lia).
        cbn [fst snd N.to_nat sum_lens]. rewrite N.add_0_r. reflexivity.
      + destruct (N.ltb_spec (level + 1) mips); [|lia].
        rewrite (IH fuel idx (level + 1) (bytes + si_len (info_at level))) by lia.
        set (k := fst (scan (level + 1) (S n))).
        assert (Ha : after idx level (k + 1) = after idx (level + 1) k) by (unfold after; replace (level + (k + 1)) with (level + 1 + k) by lia; reflexivity).
        rewrite Ha. replace (N.to_nat (k + 1)) with (S (N.to_nat k)) by lia. cbn [sum_lens si_len info_at].
        rewrite N.add_assoc. reflexivity.
  Qed.

  (* the encoder's invariant: the cursor is at flat index i and the bytes written are the header plus
     the layout offset of that surface *)
  Definition erel (e : encoder) (hl : N) (i : N) : Prop :=
    e_layout e = Lay /\ it_rel (e_it e) i /\ e_bytes e = hl + c_offset i /\ e_mul e = mul.

  Hypothesis HLayM : layout_mipmaps Lay = mips /\ layout_is_volume Lay = false.

  Lemma c_offset_abs idx level : inv idx level -> c_offset (abs idx level) = offset_of idx level.
  Proof. intros [_ [Hl _]]. unfold c_offset. destruct (abs_divmod idx level Hl) as [-> ->]. reflexivity. Qed.

  (* result of a write at i when mipmaps are generated: how far the cursor gets, and the verdict *)
  Definition gen_after (i : N) : N * option enc_err :=
    let lv := i mod mips + 1 in
    let sc := scan lv (N.to_nat (mips - lv)) in
    (i + 1 + fst sc, if snd sc then Some XInvalidSize else None).
  Definition generates (g : bool) (i : N) : bool := g && negb (mips - (i mod mips + 1) =? 0).

  Lemma enc_write_ok e hl i ws cc : erel e hl i ->
    let r := enc_write e ws cc in
    if total <=? i then r = EErr XTooManySurfaces e
    else if ws then r = EErr XUnexpectedSurfaceSize e
    else if cc then r = EErr XCancelled e
    else if bad (i mod mips) then r = EErr XInvalidSize e
    else
      let i' := if generates (e_generate e) i then fst (gen_after i) else i + 1 in
      let x := if generates (e_generate e) i then snd (gen_after i) else None in
      exists e', erel e' hl i' /\ e_generate e' = e_generate e /\ i < i' /\
                 r = match x with None => EOk e' | Some y => EErr y e' end.
  Proof.
    intros [Hlay [Hit [Hb Hmul]]]. cbv zeta. unfold enc_write. rewrite (it_rel_observe _ _ Hit).
    destruct (N.ltb_spec i total) as [Hlt|Hge]; destruct (N.leb_spec total i) as [Hge'|Hlt']; try lia; [|reflexivity].
    destruct ws; [reflexivity|]. destruct cc; [reflexivity|].
    rewrite Hmul. fold (bad (i mod mips)). destruct (bad (i mod mips)); [reflexivity|].
    destruct (it_rel_advance _ _ Hit Hlt) as [it1 [Hadv Hit1]]. rewrite Hadv.
    rewrite Hlay. destruct HLayM as [-> ->]. cbn [negb]. rewrite andb_true_r. cbn [si_level info_at].
    unfold generates.
    destruct (e_generate e) eqn:Eg; cbn [andb];
      [destruct (N.eqb_spec (mips - (i mod mips + 1)) 0) as [Hz|Hz]; cbn [negb]|].
    - eexists. split; [|split; [|split; [|reflexivity]]]; [|reflexivity|lia].
      unfold erel. cbn [e_layout e_it e_bytes e_mul]. repeat split; try assumption. rewrite Hb, c_offset_step by exact Hlt. lia.
    - destruct Hit1 as [idx [level [-> [Hinv Ha]]]].
      pose proof (N.div_mod i mips ltac:(lia)) as E. pose proof (N.mod_lt i mips ltac:(lia)) as Hl.
      assert (Hq : i / mips < len) by (apply N.div_lt_upper_bound; unfold total in Hlt; lia).
      assert (Hidx : idx = i / mips /\ level = i mod mips + 1).
      { destruct Hinv as [Hi [Hlv _]]. unfold abs in Ha.
        apply (N.div_mod_unique mips idx (i / mips) level (i mod mips + 1)); lia. }
      destruct Hidx as [-> ->].
      destruct (N.to_nat (mips - (i mod mips + 1))) as [|k] eqn:Ek; [lia|].
      rewrite (gen_loop_spec k 256 (i / mips) (i mod mips + 1) _) by lia.
      unfold gen_after. cbv zeta. rewrite Ek. cbn [fst snd].
      set (sc := scan (i mod mips + 1) (S k)).
      pose proof (scan_le (i mod mips + 1) (S k)) as Hsc. fold sc in Hsc.
      assert (Hk : i mod mips + 1 + fst sc <= mips) by lia.
      assert (Hrel' : erel (mkEncoder Lay (ITex first len (fst (after (i / mips) (i mod mips + 1) (fst sc))) (snd (after (i / mips) (i mod mips + 1) (fst sc))))
                              (e_bytes e + si_len (info_at (i mod mips)) + sum_lens p w h (i mod mips + 1) (N.to_nat (fst sc))) true mul) hl (i + 1 + fst sc)).
      { unfold erel. cbn [e_layout e_it e_bytes e_mul]. split; [reflexivity|].
        pose proof (after_inv (i / mips) (i mod mips + 1) (fst sc) Hq Hk) as Hinv'.
        pose proof (after_abs (i / mips) (i mod mips + 1) (fst sc) Hk) as Habs'.
        split; [|split; [|reflexivity]].
        - eexists _, _. split; [reflexivity|]. split; [exact Hinv'|]. rewrite Habs'. lia.
        - replace (i + 1 + fst sc) with (abs (fst (after (i / mips) (i mod mips + 1) (fst sc))) (snd (after (i / mips) (i mod mips + 1) (fst sc)))) by (rewrite Habs'; lia).
          rewrite (c_offset_abs _ _ Hinv'), after_offset by exact Hk.
          rewrite Hb. rewrite <- (c_offset_abs (i / mips) (i mod mips + 1) Hinv). rewrite Ha. rewrite c_offset_step by exact Hlt. lia. }
      destruct (snd sc); eexists; (split; [exact Hrel'|split; [reflexivity|split; [lia|reflexivity]]]).
    - eexists. split; [|split; [|split; [|reflexivity]]]; [|reflexivity|lia].
      unfold erel. cbn [e_layout e_it e_bytes e_mul]. repeat split; try assumption. rewrite Hb, c_offset_step by exact Hlt. lia.
  Qed.

  Lemma enc_finish_ok e hl i : erel e hl i ->
    match enc_finish e with
    | EOk e' => e' = e /\ i = total
    | EErr XMissingSurfaces e' => e' = e /\ i < total
    | _ => False
    end.
  Proof.
    intros [Hlay [Hit [Hb _]]]. unfold enc_finish. rewrite (it_rel_observe _ _ Hit).
    pose proof (it_rel_le _ _ Hit). destruct (N.ltb_spec i total); [auto|]. split; [reflexivity|lia].
  Qed.

  (* spec: the encoder accepts exactly the surfaces of the layout in order *)
  Definition x_step (g : bool) (i : N) (op : enc_op) : option enc_err * bool * N :=
    match op with
    | EWrite ws cc =>
        if total <=? i then (Some XTooManySurfaces, g, i)
        else if ws then (Some XUnexpectedSurfaceSize, g, i)
        else if cc then (Some XCancelled, g, i)
        else if bad (i mod mips) then (Some XInvalidSize, g, i)
        else if generates g i then (snd (gen_after i), g, fst (gen_after i)) else (None, g, i + 1)
    | EToggle => (None, negb g, i)
    | EFinish => if i =? total then (None, g, i) else (Some XMissingSurfaces, g, i)
    end.

  Fixpoint enc_sim (e : encoder) (hl i : N) (ops : list enc_op) : Prop :=
    match ops with
    | [] => True
    | op :: rest =>
        let xs := x_step (e_generate e) i op in
        match enc_step e op with
        | EOk e' => fst (fst xs) = None /\ erel e' hl (snd xs) /\ e_generate e' = snd (fst xs) /\ enc_sim e' hl (snd xs) rest
        | EErr y e' => fst (fst xs) = Some y /\ erel e' hl (snd xs) /\ e_generate e' = snd (fst xs) /\
                       (snd xs = i -> e' = e)            (* a call that does not move the cursor changes nothing *)
                       /\ enc_sim e' hl (snd xs) rest
        | EPanic => False
        end
    end.

  Lemma enc_sim_holds ops : forall e hl i, erel e hl i -> enc_sim e hl i ops.
  Proof.
    induction ops as [|op rest IH]; intros e hl i Hrel; cbn [enc_sim]; [exact I|].
    assert (Hsame : forall y : enc_err, Some y = Some y /\ erel e hl i /\ e_generate e = e_generate e /\ (i = i -> e = e) /\ enc_sim e hl i rest).
    { intros y. split; [reflexivity|]. split; [exact Hrel|]. split; [reflexivity|]. split; [reflexivity|]. apply IH. exact Hrel. }
    destruct op as [ws cc| |]; cbn [x_step enc_step]; cbv zeta.
    - pose proof (enc_write_ok e hl i ws cc Hrel) as H. cbv zeta in H.
      destruct (N.leb_spec total i); [rewrite H; cbn [fst snd]; apply Hsame|].
      destruct ws; [rewrite H; cbn [fst snd]; apply Hsame|].
      destruct cc; [rewrite H; cbn [fst snd]; apply Hsame|].
      destruct (bad (i mod mips)); [rewrite H; cbn [fst snd]; apply Hsame|].
      destruct H as [e' [Hrel' [Hg [Hlt Hr]]]]. rewrite Hr.
      destruct (generates (e_generate e) i).
      + destruct (snd (gen_after i)) as [y'|]; cbn [fst snd].
        * split; [reflexivity|]. split; [exact Hrel'|]. split; [exact Hg|]. split; [intros; lia|]. apply IH. exact Hrel'.
        * split; [reflexivity|]. split; [exact Hrel'|]. split; [exact Hg|]. apply IH. exact Hrel'.
      + cbn [fst snd]. split; [reflexivity|]. split; [exact Hrel'|]. split; [exact Hg|]. apply IH. exact Hrel'.
    - cbn [fst snd]. split; [reflexivity|]. destruct Hrel as [A [B [C D]]].
      assert (Hr : erel (mkEncoder (e_layout e) (e_it e) (e_bytes e) (negb (e_generate e)) (e_mul e)) hl i) by (repeat split; assumption).
      split; [exact Hr|]. split; [reflexivity|]. apply IH. exact Hr.
    - pose proof (enc_finish_ok e hl i Hrel) as H.
      destruct (enc_finish e) as [e'|y e'|]; [| |exact H].
      + destruct H as [-> ->]. rewrite N.eqb_refl. cbn [fst snd]. split; [reflexivity|]. split; [exact Hrel|]. split; [reflexivity|]. apply IH. exact Hrel.
      + destruct y; try contradiction. destruct H as [-> Hlt].
        destruct (N.eqb_spec i total); [lia|]. cbn [fst snd]. apply Hsame.
  Qed.

  Lemma erel_init hl g : erel (enc_init Lay hl g mul) hl 0.
  Proof.
    unfold erel, enc_init. cbn [e_layout e_it e_bytes e_mul]. split; [reflexivity|]. split; [|split; [|reflexivity]].
    - exists 0, 0. rewrite HLay. split; [reflexivity|]. split; [unfold inv; lia|]. unfold abs. lia.
    - unfold c_offset. rewrite N.div_0_l, N.mod_0_l by lia. unfold offset_of, part. cbn. lia.
  Qed.
End TexIter.

(* ------------------------------------------------------------ the cursor is an index into the flattened list *)
Lemma nth_error_flat_map_const {A B} (f : A -> list B) (m : nat) :
  forall l, (forall a, In a l -> length (f a) = m) ->
  forall k j, (j < m)%nat ->
  nth_error (flat_map f l) (k * m + j) = match nth_error l k with Some a => nth_error (f a) j | None => None end.
Proof.
  induction l as [|a l IH]; intros Hlen k j Hj.
  - cbn [flat_map]. destruct k; [destruct (0 * m + j)%nat|destruct (S k * m + j)%nat]; reflexivity.
  - cbn [flat_map]. destruct k as [|k].
    + cbn [Nat.mul Nat.add nth_error]. apply nth_error_app1. rewrite (Hlen a (or_introl eq_refl)). exact Hj.
    + cbn [nth_error]. rewrite nth_error_app2 by (rewrite (Hlen a (or_introl eq_refl)); lia).
      rewrite (Hlen a (or_introl eq_refl)). replace (S k * m + j - m)%nat with (k * m + j)%nat by lia.
      apply IH; [|exact Hj]. intros a' Ha'. apply Hlen. right. exact Ha'.
Qed.

Theorem cursor_points_into_flatten p w h m n i : 1 <= m -> i < n * m ->
  nth_error (spec_array p w h m n) (N.to_nat i) =
  Some (mkSurf (mip_dim w (i mod m)) (mip_dim h (i mod m)) (c_offset p w h m i)
               (spec_len p (mip_dim w (i mod m)) (mip_dim h (i mod m)))).
Proof.
  intros Hm Hi. unfold spec_array.
  pose proof (N.div_mod i m ltac:(lia)) as E. pose proof (N.mod_lt i m ltac:(lia)) as Hlt.
  assert (Hq : i / m < n) by (apply N.div_lt_upper_bound; lia).
  replace (N.to_nat i) with (N.to_nat (i / m) * N.to_nat m + N.to_nat (i mod m))%nat by lia.
  rewrite (nth_error_flat_map_const _ (N.to_nat m)).
  - rewrite nseq_nth_error by lia. rewrite spec_mips_nth by lia.
    rewrite !N.add_0_l, !N2Nat.id. unfold c_offset, offset_of, part. f_equal. f_equal. lia.
  - intros a _. apply spec_mips_length.
  - lia.
Qed.

(* ------------------------------------------------------------ C08 for textures, arrays, cube maps *)
Definition shape_mips_ok (sh : shape) : Prop :=
  match sh with ShTexture _ _ m | ShArray _ _ _ m _ | ShVolume _ _ _ m => 1 <= m <= 255 end.

Theorem decoder_refines_cursor_tex sh p ops : wf_pixel_info p -> fits sh p -> shape_mips_ok sh ->
  match sh with
  | ShTexture w h m => sim_run p w h m 1 (layout_of_shape sh p) (dec_init (layout_of_shape sh p)) 0 ops
  | ShArray k w h m n => sim_run p w h m n (layout_of_shape sh p) (dec_init (layout_of_shape sh p)) 0 ops
  | ShVolume _ _ _ _ => True
  end.
Proof.
  intros Hp [He Ht] Hm. destruct sh as [w h m|k w h m n|w h d m]; [| |exact I];
    cbn [elem_total exact_total shape_mips_ok layout_of_shape] in *.
  - apply sim_run_holds; try assumption; try lia; try reflexivity;
      try (intros a Ha; discriminate Ha); apply rel_init; try assumption; try lia; reflexivity.
  - apply sim_run_holds; try assumption; try lia; try reflexivity;
      try (intros a Ha; injection Ha as <-; split; reflexivity); apply rel_init; try assumption; try lia; reflexivity.
Qed.

Lemma c_offset_total p w h m n : 1 <= m -> c_offset p w h m (n * m) = sum_lens p w h 0 (N.to_nat m) * n.
Proof.
  intros Hm. unfold c_offset, offset_of, part. rewrite N.div_mul by lia. rewrite N.mod_mul by lia. cbn. lia.
Qed.

Lemma spec_dims2_mips h w hh m : spec_dims2 h = LOk (w, hh, m) -> m = lh_mips h /\ m <= 255.
Proof.
  unfold spec_dims2. destruct (lh_w h =? 0); [discriminate|]. destruct (lh_h h =? 0); [discriminate|].
  destruct (N.ltb_spec 255 (lh_mips h)); [discriminate|]. intros E. injection E as _ _ <-. split; [reflexivity|assumption].
Qed.
Lemma spec_dims3_mips h w hh d m : spec_dims3 h = LOk (w, hh, d, m) -> m = lh_mips h /\ m <= 255.
Proof.
  unfold spec_dims3. destruct (lh_w h =? 0); [discriminate|]. destruct (lh_h h =? 0); [discriminate|].
  destruct (lh_depth h) as [d'|]; [|discriminate]. destruct (d' =? 0); [discriminate|].
  destruct (N.ltb_spec 255 (lh_mips h)); [discriminate|]. intros E. injection E as _ _ _ <-. split; [reflexivity|assumption].
Qed.
Lemma spec_shape_mips h sh : 1 <= lh_mips h -> spec_shape h = LOk sh -> shape_mips_ok sh.
Proof.
  intros H1. unfold spec_shape.
  destruct (lh_dx10 h); [destruct (lh_cube10 h); destruct (lh_dim h)|
    destruct (has_bits (lh_caps2 h) CAPS2_CUBE_MAP); [destruct (has_bits (lh_caps2 h) CAPS2_VOLUME)|destruct (has_bits (lh_caps2 h) CAPS2_VOLUME)]];
  try discriminate;
  try (destruct (spec_dims2 h) as [[[w hh] m]|e] eqn:E2; [destruct (spec_dims2_mips h w hh m E2) as [-> ?]|discriminate]);
  try (destruct (spec_dims3 h) as [[[[w hh] d] m]|e] eqn:E3; [destruct (spec_dims3_mips h w hh d m E3) as [-> ?]|discriminate]);
  try (destruct (lh_array h * 6 <? U32); [|discriminate]);
  try (destruct (lh_array h =? 1));
  intros E; injection E as <-; cbn [shape_mips_ok]; lia.
Qed.

Theorem decoder_refines_cursor_hdr h p L ops :
  wf_pixel_info p -> 1 <= lh_mips h -> from_header_with h p = LOk L ->
  match L with
  | LTexture t => sim_run (t_p t) (t_w t) (t_h t) (t_mips t) 1 L (dec_init L) 0 ops
  | LArray a => sim_run (a_p a) (a_w a) (a_h a) (a_mips a) (a_len a) L (dec_init L) 0 ops
  | LVolume _ => True
  end.
Proof.
  intros Hp H1 H. destruct (from_header_ok_inv h p L H) as [sh [Hs [Hf [-> Hpos]]]].
  pose proof (spec_shape_mips h sh H1 Hs) as Hm.
  pose proof (decoder_refines_cursor_tex sh p ops Hp Hf Hm) as T.
  destruct sh; cbn [layout_of_shape t_p t_w t_h t_mips a_p a_w a_h a_mips a_len] in *; exact T.
Qed.

(* ================================================================ volumes (VolumeSurfaceIterator) *)
Lemma spec_volds_length p w h d : forall n level off, length (spec_volds p w h d level n off) = n.
Proof. induction n as [|n IH]; intros; cbn [spec_volds length]; [reflexivity|]. rewrite IH. reflexivity. Qed.

Lemma sum_vol_split p w h d : forall n level k, (k <= n)%nat ->
  sum_vol p w h d level n = sum_vol p w h d level k + sum_vol p w h d (level + N.of_nat k) (n - k).
Proof.
  induction n as [|n IH]; intros level k Hk.
  - replace k with 0%nat by lia. cbn. reflexivity.
  - destruct k as [|k].
    + cbn [sum_vol]. rewrite N.add_0_r. cbn [Nat.sub]. reflexivity.
    + cbn [sum_vol Nat.sub]. rewrite (IH (level + 1) k) by lia.
      replace (level + 1 + N.of_nat k) with (level + N.of_nat (S k)) by lia. lia.
Qed.
Lemma sum_vol_le p w h d n level k : (k <= n)%nat -> sum_vol p w h d level k <= sum_vol p w h d level n.
Proof. intros Hk. rewrite (sum_vol_split p w h d n level k Hk). lia. Qed.

Lemma spec_volds_nth p w h d : forall n level off k, (k < n)%nat ->
  nth_error (spec_volds p w h d level n off) k =
  Some (mkVold (mip_dim w (level + N.of_nat k)) (mip_dim h (level + N.of_nat k)) (mip_dim d (level + N.of_nat k))
               (off + sum_vol p w h d level k)
               (spec_len p (mip_dim w (level + N.of_nat k)) (mip_dim h (level + N.of_nat k)))).
Proof.
  induction n as [|n IH]; intros level off k Hk; [lia|].
  destruct k as [|k]; cbn [spec_volds nth_error sum_vol].
  - rewrite !N.add_0_r. reflexivity.
  - rewrite IH by lia. replace (level + 1 + N.of_nat k) with (level + N.of_nat (S k)) by lia.
    rewrite N.add_assoc. reflexivity.
Qed.
Lemma firstn_spec_volds p w h d : forall n level off k, (k <= n)%nat ->
  firstn k (spec_volds p w h d level n off) = spec_volds p w h d level k off.
Proof.
  induction n as [|n IH]; intros level off k Hk.
  - replace k with 0%nat by lia. reflexivity.
  - destruct k as [|k]; cbn [spec_volds firstn]; [reflexivity|]. rewrite IH by lia. reflexivity.
Qed.
Lemma skipn_spec_volds p w h d : forall n level off k, (k <= n)%nat ->
  skipn k (spec_volds p w h d level n off) =
  spec_volds p w h d (level + N.of_nat k) (n - k) (off + sum_vol p w h d level k).
Proof.
  induction n as [|n IH]; intros level off k Hk.
  - replace k with 0%nat by lia. cbn. reflexivity.
  - destruct k as [|k]; cbn [spec_volds skipn sum_vol Nat.sub].
    + rewrite !N.add_0_r. reflexivity.
    + rewrite IH by lia. replace (level + 1 + N.of_nat k) with (level + N.of_nat (S k)) by lia.
      rewrite N.add_assoc. reflexivity.
Qed.
(* summing the per-level lengths the way skip_mipmaps / elapsed_bytes do *)
Lemma sum_volds p w h d : forall n level off base, base + sum_vol p w h d level n < U64 ->
  (let? ls := omap vold_data_len (spec_volds p w h d level n off) in sum64 ls base) = Some (base + sum_vol p w h d level n).
Proof.
  induction n as [|n IH]; intros level off base Hfit; cbn [spec_volds omap sum_vol] in *.
  - cbn. f_equal. lia.
  - unfold vold_data_len at 1. cbn [vd_slice vd_d]. unfold unchecked_mul64, checked_mul64.
    set (sl := spec_len p (mip_dim w level) (mip_dim h level)) in *. set (dd := mip_dim d level) in *.
    replace (sl * dd <? U64) with true by (symmetry; apply N.ltb_lt; lia). cbn [obind].
    specialize (IH (level + 1) (off + dd * sl) (base + sl * dd) ltac:(lia)).
    destruct (omap vold_data_len (spec_volds p w h d (level + 1) n (off + dd * sl))) as [ls|]; cbn [obind] in *; [|discriminate IH].
    cbn [sum64]. unfold unchecked_add64, checked_add64.
    replace (base + sl * dd <? U64) with true by (symmetry; apply N.ltb_lt; lia). cbn [obind].
    rewrite IH. f_equal. lia.
Qed.

Section VolIter.
  Variables (p : pixel_info) (w h d mips : N).
  Let T := sum_vol p w h d 0 (N.to_nat mips).
  Let v := mkVol w h d mips p.
  Hypothesis Hp : wf_pixel_info p.
  Hypothesis Hm : 1 <= mips <= 255.
  Hypothesis HT : T < U64.

  Definition dl (level : N) : N := mip_dim d level.
  Definition sl (level : N) : N := spec_len p (mip_dim w level) (mip_dim h level).
  Definition voff (level : N) : N := sum_vol p w h d 0 (N.to_nat level).

  Lemma dl_pos level : 1 <= dl level. Proof. apply mip_dim_pos. Qed.
  Lemma sl_pos level : 1 <= sl level.
  Proof. apply spec_len_pos; [exact Hp|apply mip_dim_pos|apply mip_dim_pos]. Qed.
  Lemma voff_le level : level <= mips -> voff level <= T.
  Proof. intros Hl. apply sum_vol_le. lia. Qed.
  Lemma voff_succ level : level < mips -> voff (level + 1) = voff level + dl level * sl level.
  Proof.
    intros Hl. unfold voff. replace (N.to_nat (level + 1)) with (S (N.to_nat level)) by lia.
    rewrite (sum_vol_split p w h d (S (N.to_nat level)) 0 (N.to_nat level)) by lia.
    replace (S (N.to_nat level) - N.to_nat level)%nat with 1%nat by lia.
    cbn [sum_vol]. rewrite N.add_0_l, N2Nat.id. unfold dl, sl. lia.
  Qed.

  Lemma v_mips : vol_iter_mips v = Some (spec_volds p w h d 0 (N.to_nat mips) 0).
  Proof. unfold vol_iter_mips. cbn [vo_p vo_w vo_h vo_d vo_mips v]. apply vol_iter_from_spec; [exact Hp|]. fold T. lia. Qed.

  Definition vd_at (level : N) : vold := mkVold (mip_dim w level) (mip_dim h level) (dl level) (voff level) (sl level).
  Lemma v_get_in level : level < mips -> vol_get v level = Some (Some (vd_at level)).
  Proof.
    intros Hl. unfold vol_get. rewrite v_mips. cbn [obind]. rewrite spec_volds_nth by lia.
    rewrite !N.add_0_l, N2Nat.id. reflexivity.
  Qed.
  Lemma v_get_out level : mips <= level -> vol_get v level = Some None.
  Proof.
    intros Hl. unfold vol_get. rewrite v_mips. cbn [obind]. f_equal. apply nth_error_None. rewrite spec_volds_length. lia.
  Qed.

  Definition vinv (level depth : N) : Prop := (level < mips /\ depth < dl level) \/ (level = mips /\ depth = 0).
  Definition vpos (level depth : N) : N := voff level + depth * sl level.
  Definition vinfo (level : N) : sinfo := mkSI (mip_dim w level) (mip_dim h level) (sl level) level.

  Lemma slice_fits level depth : level < mips -> depth <= dl level -> voff level + depth * sl level <= T.
  Proof.
    intros Hl Hd. pose proof (voff_succ level Hl) as S. pose proof (voff_le (level + 1) ltac:(lia)) as B.
    assert (depth * sl level <= dl level * sl level) by (apply N.mul_le_mono_r; exact Hd). lia.
  Qed.
  Lemma vpos_le level depth : vinv level depth -> vpos level depth <= T.
  Proof.
    intros [[Hl Hd]|[-> ->]]; unfold vpos.
    - apply slice_fits; lia.
    - rewrite N.mul_0_l, N.add_0_r. apply voff_le. lia.
  Qed.

  Lemma vcur_in level depth : level < mips -> depth < dl level ->
    iter_current (IVol v level depth) = Some (Some (vinfo level)).
  Proof.
    intros Hl Hd. cbn [iter_current]. rewrite v_get_in by exact Hl. cbn [obind vd_d vd_at].
    replace (depth <? dl level) with true by (symmetry; apply N.ltb_lt; exact Hd). cbn [negb].
    unfold get_depth_slice. cbn [vd_d vd_at]. replace (depth <? dl level) with true by (symmetry; apply N.ltb_lt; exact Hd).
    unfold depth_slice, unchecked_mul64, unchecked_add64, checked_mul64, checked_add64. cbn [vd_slice vd_off vd_w vd_h vd_at].
    pose proof (slice_fits level depth Hl ltac:(lia)) as F.
    assert (depth * sl level <= T) by lia.
    replace (depth * sl level <? U64) with true by (symmetry; apply N.ltb_lt; lia). cbn [obind].
    replace (voff level + depth * sl level <? U64) with true by (symmetry; apply N.ltb_lt; lia). cbn [obind s_w s_h s_len].
    reflexivity.
  Qed.
  Lemma vcur_end depth : iter_current (IVol v mips depth) = Some None.
  Proof. cbn [iter_current]. rewrite v_get_out by lia. reflexivity. Qed.

  (* successor / predecessor of a cursor position *)
  Definition vnext (level depth : N) : N * N := if depth + 1 <? dl level then (level, depth + 1) else (level + 1, 0).
  Definition vprev (level depth : N) : N * N :=
    if 0 <? depth then (level, depth - 1) else if 0 <? level then (level - 1, dl (level - 1) - 1) else (level, depth).

  Lemma vadv level depth : level < mips -> depth < dl level ->
    iter_advance (IVol v level depth) = Some (IVol v (fst (vnext level depth)) (snd (vnext level depth))) /\
    vinv (fst (vnext level depth)) (snd (vnext level depth)) /\
    vpos (fst (vnext level depth)) (snd (vnext level depth)) = vpos level depth + sl level.
  Proof.
    intros Hl Hd. cbn [iter_advance]. rewrite v_get_in by exact Hl. cbn [obind vd_d vd_at]. unfold vnext.
    destruct (N.ltb_spec (depth + 1) (dl level)) as [Hn|Hn]; cbn [fst snd].
    - split; [reflexivity|]. split; [left; lia|]. unfold vpos. lia.
    - replace (level + 1 <? U8) with true by (symmetry; apply N.ltb_lt; unfold U8; lia).
      split; [reflexivity|]. split.
      + destruct (N.eq_dec (level + 1) mips) as [E|E]; [right; lia|left; pose proof (dl_pos (level + 1)); lia].
      + unfold vpos. rewrite voff_succ by exact Hl. assert (depth + 1 = dl level) by lia. nia.
  Qed.
  Lemma vadv_end depth : iter_advance (IVol v mips depth) = Some (IVol v mips depth).
  Proof. cbn [iter_advance]. rewrite v_get_out by lia. reflexivity. Qed.

  Lemma vrew level depth : vinv level depth ->
    iter_rewind (IVol v level depth) = Some (IVol v (fst (vprev level depth)) (snd (vprev level depth))) /\
    vinv (fst (vprev level depth)) (snd (vprev level depth)) /\
    vpos (fst (vprev level depth)) (snd (vprev level depth)) <= vpos level depth /\
    ((level = 0 /\ depth = 0) \/ vpos level depth = vpos (fst (vprev level depth)) (snd (vprev level depth)) + sl (fst (vprev level depth))).
  Proof.
    intros Hinv. cbn [iter_rewind]. unfold vprev.
    destruct (N.ltb_spec 0 depth) as [Hd|Hd]; cbn [fst snd].
    - split; [reflexivity|]. destruct Hinv as [[Hl Hdd]|[_ ->]]; [|lia].
      split; [left; lia|]. unfold vpos. split; [nia|]. right. nia.
    - assert (depth = 0) by lia. subst depth. destruct (N.ltb_spec 0 level) as [Hl|Hl]; cbn [fst snd].
      + assert (Hlm : level - 1 < mips) by (destruct Hinv as [[? ?]|[? ?]]; lia).
        rewrite v_get_in by exact Hlm. cbn [obind vd_d vd_at].
        pose proof (dl_pos (level - 1)) as Hdp.
        replace (0 <? dl (level - 1)) with true by (symmetry; apply N.ltb_lt; lia).
        split; [reflexivity|]. split; [left; lia|]. unfold vpos.
        pose proof (voff_succ (level - 1) Hlm) as S. replace (level - 1 + 1) with level in S by lia.
        split; [nia|]. right. nia.
      + split; [reflexivity|]. split; [exact Hinv|]. split; [lia|]. left. lia.
  Qed.

  Lemma velapsed level depth : vinv level depth -> iter_elapsed (IVol v level depth) = Some (vpos level depth).
  Proof.
    intros Hinv. pose proof (vpos_le level depth Hinv) as Hle. cbn [iter_elapsed]. rewrite v_mips. cbn [obind].
    rewrite spec_volds_length.
    assert (Hlm : level <= mips) by (destruct Hinv as [[? ?]|[? ?]]; lia).
    replace (N.of_nat (N.to_nat mips) <? level) with false by (symmetry; apply N.ltb_ge; lia).
    rewrite firstn_spec_volds by lia.
    pose proof (sum_volds p w h d (N.to_nat level) 0 0 0) as SV. cbn zeta in SV. fold (voff level) in SV.
    rewrite N.add_0_l in SV. specialize (SV ltac:(pose proof (voff_le level Hlm); lia)).
    destruct (omap vold_data_len (spec_volds p w h d 0 (N.to_nat level) 0)) as [ls|]; cbn [obind] in *; [|discriminate SV].
    rewrite SV. cbn [obind].
    destruct Hinv as [[Hl Hd]|[-> ->]].
    - rewrite spec_volds_nth by lia. rewrite !N.add_0_l, N2Nat.id. fold (voff level) (dl level) (sl level).
      unfold get_depth_slice. cbn [vd_d]. pose proof (dl_pos level).
      replace (0 <? dl level) with true by (symmetry; apply N.ltb_lt; lia).
      unfold depth_slice, unchecked_mul64, unchecked_add64, checked_mul64, checked_add64. cbn [vd_slice vd_off vd_w vd_h].
      rewrite N.mul_0_l. replace (0 <? U64) with true by reflexivity. cbn [obind].
      pose proof (voff_le level Hlm). replace (voff level + 0 <? U64) with true by (symmetry; apply N.ltb_lt; lia). cbn [obind s_len].
      unfold vpos in *. replace (sl level * depth <? U64) with true by (symmetry; apply N.ltb_lt; nia). cbn [obind].
      replace (voff level + sl level * depth <? U64) with true by (symmetry; apply N.ltb_lt; nia). f_equal. lia.
    - replace (nth_error (spec_volds p w h d 0 (N.to_nat mips) 0) (N.to_nat mips)) with (@None vold)
        by (symmetry; apply nth_error_None; rewrite spec_volds_length; lia).
      unfold vpos. f_equal. lia.
  Qed.

  Lemma vskip_mid level : 0 < level < mips ->
    iter_skip_mipmaps (IVol v level 0) = SkipOk (IVol v mips 0) (T - voff level).
  Proof.
    intros Hl. cbn [iter_skip_mipmaps N.eqb negb]. cbn [vo_mips v].
    replace (level =? 0) with false by (symmetry; apply N.eqb_neq; lia).
    replace (mips <=? level) with false by (symmetry; apply N.leb_gt; lia). cbn [orb].
    rewrite v_mips. rewrite skipn_spec_volds by lia.
    pose proof (sum_vol_split p w h d (N.to_nat mips) 0 (N.to_nat level) ltac:(lia)) as S. fold T in S. fold (voff level) in S.
    rewrite N.add_0_l, N2Nat.id in S.
    pose proof (sum_volds p w h d (N.to_nat mips - N.to_nat level) (0 + N.of_nat (N.to_nat level)) (0 + sum_vol p w h d 0 (N.to_nat level)) 0) as SV.
    cbn zeta in SV. rewrite !N.add_0_l, N2Nat.id in SV. specialize (SV ltac:(lia)).
    rewrite !N.add_0_l, N2Nat.id.
    destruct (omap vold_data_len _) as [ls|]; cbn [obind] in *; [|discriminate SV].
    rewrite SV. rewrite N.eqb_refl. cbn [negb]. f_equal. lia.
  Qed.
  (* ---- Decoder over a volume: the spec cursor is the pair (level, depth) *)
  Definition vc_step (c : N * N) (op : dec_op) : cres * (N * N) :=
    let consume (bad : bool) (e : dec_err) :=
      if mips <=? fst c then (CErr ENoMoreSurfaces, c) else if bad then (CErr e, c) else (COk, vnext (fst c) (snd c)) in
    match op with
    | OpRead ws => consume ws EUnexpectedSurfaceSize
    | OpRect oob => consume oob ERectOutOfBounds
    | OpSkip => consume false EIo
    | OpSkipMips =>
        if negb (snd c =? 0) then (CErr ECannotSkipMipmapsInVolume, c)
        else if (fst c =? 0) || (mips <=? fst c) then (COk, c) else (COk, (mips, 0))
    | OpRewindPrev => (COk, vprev (fst c) (snd c))
    | OpRewindStart => (COk, (0, 0))
    | OpCube _ => (CErr ENotACubeMap, c)
    end.

  Definition vrel (dd : decoder) (c : N * N) : Prop :=
    d_layout dd = LVolume v /\ d_it dd = IVol v (fst c) (snd c) /\ vinv (fst c) (snd c) /\ d_pos dd = vpos (fst c) (snd c).

  Lemma vrel_init : vrel (dec_init (LVolume v)) (0, 0).
  Proof.
    unfold vrel, dec_init. cbn [d_layout d_it d_pos iter_new fst snd].
    split; [reflexivity|]. split; [reflexivity|]. split; [left; pose proof (dl_pos 0); split; lia|].
    unfold vpos, voff. cbn. lia.
  Qed.

  Lemma vrel_observe dd c : vrel dd c ->
    iter_current (d_it dd) = Some (if fst c <? mips then Some (vinfo (fst c)) else None) /\ d_pos dd = vpos (fst c) (snd c).
  Proof.
    intros [_ [Hit [Hinv Hpos]]]. split; [|exact Hpos]. rewrite Hit. destruct Hinv as [[Hl Hd]|[Hl Hd]].
    - replace (fst c <? mips) with true by (symmetry; apply N.ltb_lt; exact Hl). apply vcur_in; assumption.
    - rewrite Hl. rewrite N.ltb_irrefl. apply vcur_end.
  Qed.

  Definition vagrees (rc : dres * list (N * N * N)) (dd : decoder) (c : N * N) (x : cres * (N * N)) : Prop :=
    match fst rc with
    | DOk d' => fst x = COk /\ vrel d' (snd x) /\ snd rc = []
    | DErr EIo _ => I64MAX < T
    | DErr e d' => fst x = CErr e /\ d' = dd /\ snd x = c /\ snd rc = []
    | DPanic => False
    end.

  Lemma vconsume_ok dd c (bad : bool) (e : dec_err) (skip : bool) : vrel dd c -> e <> EIo \/ bad = false ->
    let r := match iter_current (d_it dd) with
             | None => DPanic
             | Some None => DErr ENoMoreSurfaces dd
             | Some (Some si) =>
                 if bad then DErr e dd else
                 match (if skip then io_skip (d_pos dd) (si_len si) else Some (d_pos dd + si_len si)) with
                 | None => DErr EIo dd
                 | Some pp => match iter_advance (d_it dd) with None => DPanic | Some it' => DOk (mkDec (d_layout dd) it' pp) end
                 end
             end in
    vagrees (r, []) dd c (if mips <=? fst c then (CErr ENoMoreSurfaces, c) else if bad then (CErr e, c) else (COk, vnext (fst c) (snd c))).
  Proof.
    intros Hrel He. destruct (vrel_observe dd c Hrel) as [Hcur Hpos]. destruct Hrel as [Hlay [Hit [Hinv _]]].
    cbv zeta. rewrite Hcur. unfold vagrees. cbn [fst snd].
    destruct (N.ltb_spec (fst c) mips) as [Hl|Hl]; destruct (N.leb_spec mips (fst c)) as [Hl'|Hl']; try lia.
    2:{ cbn. auto. }
    destruct bad.
    - cbn [fst snd]. destruct e; try (cbn; auto; fail). destruct He; congruence.
    - destruct Hinv as [[_ Hd]|[Hx _]]; [|lia].
      destruct (vadv (fst c) (snd c) Hl Hd) as [Hadv [Hinv' Hpos']].
      assert (Hfit : vpos (fst c) (snd c) + sl (fst c) <= T) by (rewrite <- Hpos'; apply vpos_le; exact Hinv').
      cbn [si_len vinfo].
      assert (Hnew : forall pp, pp = d_pos dd + sl (fst c) ->
                vrel (mkDec (d_layout dd) (IVol v (fst (vnext (fst c) (snd c))) (snd (vnext (fst c) (snd c)))) pp) (vnext (fst c) (snd c))).
      { intros pp ->. unfold vrel. cbn [d_layout d_it d_pos]. repeat split; try assumption. rewrite Hpos'. lia. }
      destruct skip.
      + unfold io_skip. pose proof (sl_pos (fst c)).
        replace (sl (fst c) =? 0) with false by (symmetry; apply N.eqb_neq; lia).
        destruct (N.ltb_spec I64MAX (sl (fst c))); [cbn; lia|].
        destruct (N.ltb_spec (d_pos dd + sl (fst c)) U64); [|cbn; lia].
        rewrite Hit, Hadv. cbn [fst snd]. split; [reflexivity|]. split; [apply Hnew; reflexivity|reflexivity].
      + rewrite Hit, Hadv. cbn [fst snd]. split; [reflexivity|]. split; [apply Hnew; reflexivity|reflexivity].
  Qed.

  Lemma vstep_ok dd c op : vrel dd c -> vagrees (dec_step dd op) dd c (vc_step c op).
  Proof.
    intros Hrel. destruct op as [ws|oob| | | | |ws]; cbn [dec_step vc_step]; cbv zeta.
    - assert (Hne : EUnexpectedSurfaceSize <> EIo) by discriminate.
      unfold read_current. exact (vconsume_ok dd c ws EUnexpectedSurfaceSize false Hrel (or_introl Hne)).
    - assert (Hne : ERectOutOfBounds <> EIo) by discriminate.
      unfold rect_current. exact (vconsume_ok dd c oob ERectOutOfBounds false Hrel (or_introl Hne)).
    - unfold skip_surface. exact (vconsume_ok dd c false EIo true Hrel (or_intror eq_refl)).
    - (* skip_mipmaps *)
      pose proof Hrel as [Hlay [Hit [Hinv Hpos]]]. unfold skip_mipmaps, vagrees. rewrite Hit. cbn [fst snd].
      destruct (N.eqb_spec (snd c) 0) as [Hd0|Hd0]; cbn [negb].
      + rewrite Hd0 in *.
        destruct (N.eqb_spec (fst c) 0) as [Hl0|Hl0]; [|destruct (N.leb_spec mips (fst c)) as [Hlm|Hlm]]; cbn [orb].
        * cbn [iter_skip_mipmaps]. rewrite N.eqb_refl. cbn [negb]. rewrite Hl0. rewrite N.eqb_refl. cbn [orb io_skip N.eqb fst snd].
          split; [reflexivity|]. split; [|reflexivity]. destruct c as [cl cd]. cbn [fst snd] in *. subst.
          unfold vrel. cbn [d_layout d_it d_pos fst snd]. auto.
        * cbn [iter_skip_mipmaps]. rewrite N.eqb_refl. cbn [negb vo_mips v].
          replace (mips <=? fst c) with true by (symmetry; apply N.leb_le; exact Hlm). rewrite orb_true_r. cbn [io_skip N.eqb fst snd].
          split; [reflexivity|]. split; [|reflexivity]. destruct c as [cl cd]. cbn [fst snd] in *. subst.
          unfold vrel. cbn [d_layout d_it d_pos fst snd]. auto.
        * rewrite vskip_mid by lia. unfold io_skip.
          pose proof (voff_le (fst c) ltac:(lia)) as Hv.
          assert (Hnew : vrel (mkDec (d_layout dd) (IVol v mips 0) (d_pos dd + (T - voff (fst c)))) (mips, 0)).
          { unfold vrel. cbn [d_layout d_it d_pos fst snd]. repeat split; try assumption; [right; auto|].
            rewrite Hpos. unfold vpos. rewrite !N.mul_0_l, !N.add_0_r. assert (voff mips = T) by reflexivity. lia. }
          destruct (N.eqb_spec (T - voff (fst c)) 0) as [Hz|Hz].
          -- cbn [fst snd]. split; [reflexivity|]. split; [|reflexivity]. rewrite Hz, N.add_0_r in Hnew. exact Hnew.
          -- destruct (N.ltb_spec I64MAX (T - voff (fst c))); [cbn; lia|].
             assert (d_pos dd <= T) by (rewrite Hpos; apply vpos_le; exact Hinv).
             rewrite Hpos in *. unfold vpos in *. rewrite N.mul_0_l, N.add_0_r in *.
             destruct (N.ltb_spec (voff (fst c) + (T - voff (fst c))) U64); [|cbn; lia].
             cbn [fst snd]. split; [reflexivity|]. split; [exact Hnew|reflexivity].
      + cbn [iter_skip_mipmaps]. replace (snd c =? 0) with false by (symmetry; apply N.eqb_neq; exact Hd0). cbn [negb fst snd]. auto.
    - (* rewind_prev *)
      pose proof Hrel as [Hlay [Hit [Hinv Hpos]]]. unfold rewind_prev, vagrees. rewrite Hit. cbn [fst snd].
      rewrite (velapsed _ _ Hinv). destruct (vrew _ _ Hinv) as [Hr [Hinv' [Hle _]]]. rewrite Hr.
      rewrite (velapsed _ _ Hinv').
      replace (vpos (fst c) (snd c) <? vpos (fst (vprev (fst c) (snd c))) (snd (vprev (fst c) (snd c)))) with false
        by (symmetry; apply N.ltb_ge; exact Hle).
      unfold seek_back. pose proof (vpos_le _ _ Hinv) as Hb.
      destruct (N.ltb_spec I64MAX (vpos (fst c) (snd c) - vpos (fst (vprev (fst c) (snd c))) (snd (vprev (fst c) (snd c))))); [cbn; lia|].
      rewrite Hpos.
      replace (vpos (fst c) (snd c) - vpos (fst (vprev (fst c) (snd c))) (snd (vprev (fst c) (snd c))) <=? vpos (fst c) (snd c))
        with true by (symmetry; apply N.leb_le; lia).
      cbn [fst snd]. split; [reflexivity|]. split; [|reflexivity].
      unfold vrel. cbn [d_layout d_it d_pos]. repeat split; try assumption. lia.
    - (* rewind_start *)
      pose proof Hrel as [Hlay [Hit [Hinv Hpos]]]. unfold rewind_start, vagrees. rewrite Hit. cbn [fst snd].
      rewrite (velapsed _ _ Hinv). unfold seek_back. pose proof (vpos_le _ _ Hinv) as Hb.
      destruct (N.ltb_spec I64MAX (vpos (fst c) (snd c))); [cbn; lia|].
      rewrite Hpos, N.leb_refl, N.sub_diag. cbn [fst snd]. split; [reflexivity|]. split; [|reflexivity].
      rewrite Hlay. apply vrel_init.
    - (* cube *)
      destruct Hrel as [Hlay _]. unfold read_cube_map, vagrees. rewrite Hlay. cbn [layout_cube_faces fst snd]. auto.
  Qed.

  Fixpoint vsim_run (dd : decoder) (c : N * N) (ops : list dec_op) : Prop :=
    match ops with
    | [] => True
    | op :: rest =>
        let rc := dec_step dd op in
        let x := vc_step c op in
        match fst rc with
        | DOk d' => fst x = COk /\ snd rc = [] /\ vrel d' (snd x) /\ vsim_run d' (snd x) rest
        | DErr EIo _ => I64MAX < T
        | DErr e d' => fst x = CErr e /\ snd rc = [] /\ d' = dd /\ snd x = c /\ vsim_run dd c rest
        | DPanic => False
        end
    end.
  Lemma vsim_run_holds ops : forall dd c, vrel dd c -> vsim_run dd c ops.
  Proof.
    induction ops as [|op rest IH]; intros dd c Hrel; cbn [vsim_run]; [exact I|].
    pose proof (vstep_ok dd c op Hrel) as H. unfold vagrees in H.
    destruct (fst (dec_step dd op)) as [d1|e d1|]; [| |exact H].
    - destruct H as [A [B C]]. split; [exact A|]. split; [exact C|]. split; [exact B|]. apply IH. exact B.
    - destruct (dec_err_eq e EIo) as [->|Hne]; [exact H|].
      assert (G : fst (vc_step c op) = CErr e /\ d1 = dd /\ snd (vc_step c op) = c /\ snd (dec_step dd op) = [])
        by (destruct e; try congruence; exact H).
      destruct G as [A [-> [B C]]].
      assert (G' : fst (vc_step c op) = CErr e /\ snd (dec_step dd op) = [] /\ dd = dd /\ snd (vc_step c op) = c /\ vsim_run dd c rest).
      { split; [exact A|]. split; [exact C|]. split; [reflexivity|]. split; [exact B|]. apply IH. exact Hrel. }
      destruct e; try congruence; exact G'.
  Qed.

  (* ---- Encoder over a volume: mipmaps are never generated; every write is one depth slice *)
  Variable vmul : N * N.
  Definition vbad (level : N) : bool := bad_size vmul (vinfo level).
  Definition verel (e : encoder) (hl : N) (c : N * N) : Prop :=
    e_layout e = LVolume v /\ e_it e = IVol v (fst c) (snd c) /\ vinv (fst c) (snd c) /\ e_bytes e = hl + vpos (fst c) (snd c) /\ e_mul e = vmul.
  Definition vx_step (g : bool) (c : N * N) (op : enc_op) : option enc_err * bool * (N * N) :=
    match op with
    | EWrite ws cc =>
        if mips <=? fst c then (Some XTooManySurfaces, g, c)
        else if ws then (Some XUnexpectedSurfaceSize, g, c)
        else if cc then (Some XCancelled, g, c)
        else if vbad (fst c) then (Some XInvalidSize, g, c)
        else (None, g, vnext (fst c) (snd c))
    | EToggle => (None, negb g, c)
    | EFinish => if fst c =? mips then (None, g, c) else (Some XMissingSurfaces, g, c)
    end.
  Fixpoint venc_sim (e : encoder) (hl : N) (c : N * N) (ops : list enc_op) : Prop :=
    match ops with
    | [] => True
    | op :: rest =>
        let xs := vx_step (e_generate e) c op in
        match enc_step e op with
        | EOk e' => fst (fst xs) = None /\ verel e' hl (snd xs) /\ e_generate e' = snd (fst xs) /\ venc_sim e' hl (snd xs) rest
        | EErr y e' => fst (fst xs) = Some y /\ e' = e /\ snd xs = c /\ venc_sim e hl c rest
        | EPanic => False
        end
    end.
  Lemma venc_sim_holds ops : forall e hl c, verel e hl c -> venc_sim e hl c ops.
  Proof.
    induction ops as [|op rest IH]; intros e hl c Hrel; cbn [venc_sim]; [exact I|].
    pose proof Hrel as [Hlay [Hit [Hinv [Hb Hmul]]]].
    assert (Hsame : forall y : enc_err, Some y = Some y /\ e = e /\ c = c /\ venc_sim e hl c rest).
    { intros y. split; [reflexivity|]. split; [reflexivity|]. split; [reflexivity|]. apply IH. exact Hrel. }
    assert (Hcur : iter_current (e_it e) = Some (if fst c <? mips then Some (vinfo (fst c)) else None)).
    { rewrite Hit. destruct Hinv as [[Hl Hd]|[Hl Hd]].
      - replace (fst c <? mips) with true by (symmetry; apply N.ltb_lt; exact Hl). apply vcur_in; assumption.
      - rewrite Hl. rewrite N.ltb_irrefl. apply vcur_end. }
    destruct op as [ws cc| |]; cbn [vx_step enc_step]; cbv zeta.
    - unfold enc_write. rewrite Hcur.
      destruct (N.ltb_spec (fst c) mips) as [Hl|Hl]; destruct (N.leb_spec mips (fst c)) as [Hl'|Hl']; try lia.
      2:{ cbn [fst snd]. apply Hsame. }
      destruct ws; [cbn [fst snd]; apply Hsame|].
      rewrite Hlay. cbn [layout_is_volume negb]. rewrite andb_false_r.
      destruct cc; [cbn [fst snd]; apply Hsame|].
      rewrite Hmul. fold (vbad (fst c)). destruct (vbad (fst c)); [cbn [fst snd]; apply Hsame|].
      destruct Hinv as [[_ Hd]|[Hx _]]; [|lia].
      destruct (vadv (fst c) (snd c) Hl Hd) as [Hadv [Hinv' Hpos']].
      rewrite Hit, Hadv. rewrite N.eqb_refl. cbn [fst snd si_len vinfo].
      assert (Hr : verel (mkEncoder (LVolume v) (IVol v (fst (vnext (fst c) (snd c))) (snd (vnext (fst c) (snd c)))) (e_bytes e + sl (fst c)) (e_generate e) vmul) hl (vnext (fst c) (snd c))).
      { unfold verel. cbn [e_layout e_it e_bytes e_mul]. repeat split; try assumption. rewrite Hb, Hpos'. lia. }
      split; [reflexivity|]. split; [exact Hr|]. split; [reflexivity|]. apply IH. exact Hr.
    - cbn [fst snd].
      assert (Hr : verel (mkEncoder (e_layout e) (e_it e) (e_bytes e) (negb (e_generate e)) (e_mul e)) hl c) by (repeat split; assumption).
      split; [reflexivity|]. split; [exact Hr|]. split; [reflexivity|]. apply IH. exact Hr.
    - unfold enc_finish. rewrite Hcur.
      destruct (N.ltb_spec (fst c) mips) as [Hl|Hl]; destruct (N.eqb_spec (fst c) mips) as [He|He]; try lia.
      + cbn [fst snd]. apply Hsame.
      + cbn [fst snd]. split; [reflexivity|]. split; [exact Hrel|]. split; [reflexivity|]. apply IH. exact Hrel.
      + exfalso. destruct Hinv as [[? ?]|[? ?]]; lia.
  Qed.
  Lemma verel_init hl g : verel (enc_init (LVolume v) hl g vmul) hl (0, 0).
  Proof.
    unfold verel, enc_init. cbn [e_layout e_it e_bytes e_mul iter_new fst snd].
    split; [reflexivity|]. split; [reflexivity|]. split; [left; pose proof (dl_pos 0); split; lia|]. split; [|reflexivity].
    unfold vpos, voff. cbn. lia.
  Qed.

  (* the pair cursor is an index into the flattened list of C02 *)
  Definition dsum (level : N) : N := fold_right N.add 0 (map dl (nseq (N.to_nat level) 0)).
End VolIter.

(* ================================================================ C08 / C11 for every layout a header can yield *)
Theorem decoder_refines_cursor_all h p L ops :
  wf_pixel_info p -> 1 <= lh_mips h -> from_header_with h p = LOk L ->
  match L with
  | LTexture t => sim_run (t_p t) (t_w t) (t_h t) (t_mips t) 1 L (dec_init L) 0 ops
  | LArray a => sim_run (a_p a) (a_w a) (a_h a) (a_mips a) (a_len a) L (dec_init L) 0 ops
  | LVolume v => vsim_run (vo_p v) (vo_w v) (vo_h v) (vo_d v) (vo_mips v) (dec_init L) (0, 0) ops
  end.
Proof.
  intros Hp H1 H. pose proof (decoder_refines_cursor_hdr h p L ops Hp H1 H) as T.
  destruct L as [t|v|a]; try exact T.
  destruct (from_header_ok_inv h p _ H) as [sh [Hs [[He Ht] [E Hpos]]]].
  pose proof (spec_shape_mips h sh H1 Hs) as Hm.
  destruct sh as [w' h' m|k w' h' m n|w' h' d' m]; try discriminate E. injection E as ->.
  cbn [vo_p vo_w vo_h vo_d vo_mips elem_total shape_mips_ok] in *.
  apply vsim_run_holds; try assumption. apply vrel_init; assumption.
Qed.

Theorem encoder_refines_cursor_all h p L hl g mul ops :
  wf_pixel_info p -> 1 <= lh_mips h -> from_header_with h p = LOk L ->
  match L with
  | LTexture t => enc_sim (t_p t) (t_w t) (t_h t) (t_mips t) 1 L mul (enc_init L hl g mul) hl 0 ops
  | LArray a => enc_sim (a_p a) (a_w a) (a_h a) (a_mips a) (a_len a) L mul (enc_init L hl g mul) hl 0 ops
  | LVolume v => venc_sim (vo_p v) (vo_w v) (vo_h v) (vo_d v) (vo_mips v) mul (enc_init L hl g mul) hl (0, 0) ops
  end.
Proof.
  intros Hp H1 H. destruct (from_header_ok_inv h p _ H) as [sh [Hs [[He Ht] [-> Hpos]]]].
  pose proof (spec_shape_mips h sh H1 Hs) as Hm.
  destruct sh as [w' h' m|k w' h' m n|w' h' d' m];
    cbn [layout_of_shape t_p t_w t_h t_mips a_p a_w a_h a_mips a_len vo_p vo_w vo_h vo_d vo_mips elem_total exact_total shape_mips_ok] in *.
  - apply enc_sim_holds; try assumption; try lia; try reflexivity; try (intros a Ha; discriminate Ha);
      try (split; reflexivity); apply erel_init; try assumption; try lia; try reflexivity; try (split; reflexivity).
  - apply enc_sim_holds; try assumption; try lia; try reflexivity;
      try (intros a Ha; injection Ha as <-; split; reflexivity);
      try (split; reflexivity); apply erel_init; try assumption; try lia; try reflexivity; try (split; reflexivity).
  - apply venc_sim_holds; try assumption. apply verel_init; assumption.
Qed.
