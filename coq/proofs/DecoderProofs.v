(* C08: the texture/array/cube iterator and the Decoder operations refine a cursor over the
   flattened surface list. *)
From DDSV Require Import base.Machine model.Layout model.DecoderSM spec.SpecLayout proofs.LayoutProofs.

(* ------------------------------------------------------------ facts about one mip chain *)
Lemma spec_mips_length p w h : forall n level off, length (spec_mips p w h level n off) = n.
Proof. induction n as [|n IH]; intros; cbn [spec_mips length]; [reflexivity|]. rewrite IH. reflexivity. Qed.

Lemma sum_lens_split p w h : forall n level k, (k <= n)%nat ->
  sum_lens p w h level n = sum_lens p w h level k + sum_lens p w h (level + N.of_nat k) (n - k).
Proof.
  induction n as [|n IH]; intros level k Hk.
  - replace k with 0%nat by lia. cbn. reflexivity.
  - destruct k as [|k].
    + cbn [sum_lens]. rewrite N.add_0_r. cbn [Nat.sub]. reflexivity.
    + cbn [sum_lens Nat.sub]. rewrite (IH (level + 1) k) by lia.
      replace (level + 1 + N.of_nat k) with (level + N.of_nat (S k)) by lia. lia.
Qed.
Lemma sum_lens_le p w h n level k : (k <= n)%nat -> sum_lens p w h level k <= sum_lens p w h level n.
Proof. intros Hk. rewrite (sum_lens_split p w h n level k Hk). lia. Qed.

Lemma spec_mips_nth p w h : forall n level off k, (k < n)%nat ->
  nth_error (spec_mips p w h level n off) k =
  Some (mkSurf (mip_dim w (level + N.of_nat k)) (mip_dim h (level + N.of_nat k)) (off + sum_lens p w h level k)
               (spec_len p (mip_dim w (level + N.of_nat k)) (mip_dim h (level + N.of_nat k)))).
Proof.
  induction n as [|n IH]; intros level off k Hk; [lia|].
  destruct k as [|k]; cbn [spec_mips nth_error sum_lens].
  - rewrite !N.add_0_r. reflexivity.
  - rewrite IH by lia. replace (level + 1 + N.of_nat k) with (level + N.of_nat (S k)) by lia.
    rewrite N.add_assoc. reflexivity.
Qed.

Lemma sum64_spec_mips p w h : forall n level off base,
  base + sum_lens p w h level n < U64 ->
  sum64 (map s_len (spec_mips p w h level n off)) base = Some (base + sum_lens p w h level n).
Proof.
  induction n as [|n IH]; intros level off base Hfit; cbn [spec_mips map sum64 sum_lens] in *.
  - f_equal. lia.
  - unfold unchecked_add64, checked_add64. cbn [s_len].
    replace (base + spec_len p (mip_dim w level) (mip_dim h level) <? U64) with true by (symmetry; apply N.ltb_lt; lia).
    cbn [obind]. rewrite IH by lia. f_equal. lia.
Qed.
Lemma firstn_spec_mips p w h : forall n level off k, (k <= n)%nat ->
  firstn k (spec_mips p w h level n off) = spec_mips p w h level k off.
Proof.
  induction n as [|n IH]; intros level off k Hk.
  - replace k with 0%nat by lia. reflexivity.
  - destruct k as [|k]; cbn [spec_mips firstn]; [reflexivity|]. rewrite IH by lia. reflexivity.
Qed.
Lemma skipn_spec_mips p w h : forall n level off k, (k <= n)%nat ->
  skipn k (spec_mips p w h level n off) =
  spec_mips p w h (level + N.of_nat k) (n - k) (off + sum_lens p w h level k).
Proof.
  induction n as [|n IH]; intros level off k Hk.
  - replace k with 0%nat by lia. cbn. reflexivity.
  - destruct k as [|k]; cbn [spec_mips skipn sum_lens Nat.sub].
    + rewrite !N.add_0_r. reflexivity.
    + rewrite IH by lia. replace (level + 1 + N.of_nat k) with (level + N.of_nat (S k)) by lia.
      rewrite N.add_assoc. reflexivity.
Qed.

(* ------------------------------------------------------------ texture iterator *)
Section TexIter.
  Variables (p : pixel_info) (w h mips len : N).
  Let L := sum_lens p w h 0 (N.to_nat mips).
  Let first := mkTex w h mips p 0 (to_short_len L).
  Hypothesis Hp : wf_pixel_info p.
  Hypothesis Hm : 1 <= mips <= 255.
  Hypothesis HL : L < U64.
  Hypothesis HT : L * len < U64.

  Definition part (level : N) : N := sum_lens p w h 0 (N.to_nat level).

  Lemma part_le level : level <= mips -> part level <= L.
  Proof. intros Hl. apply sum_lens_le. lia. Qed.
  Lemma part_full : part mips = L.
  Proof. reflexivity. Qed.
  Lemma part_0 : part 0 = 0.
  Proof. reflexivity. Qed.

  Lemma first_mips : tex_iter_mips first = Some (spec_mips p w h 0 (N.to_nat mips) 0).
  Proof.
    pose proof (tex_iter_mips_inv w h mips p 0 Hp) as T. cbn zeta in T.
    rewrite N.mul_0_l in T. apply T. fold L. lia.
  Qed.
  Lemma first_len : tex_data_len first = Some L.
  Proof. apply tex_data_len_inv. exact HL. Qed.

  Definition info_at (level : N) : sinfo :=
    mkSI (mip_dim w level) (mip_dim h level) (spec_len p (mip_dim w level) (mip_dim h level)) level.

  Lemma cur_in idx level : idx < len -> level < mips ->
    iter_current (ITex first len idx level) = Some (Some (info_at level)).
  Proof.
    intros Hi Hl. cbn [iter_current]. apply N.ltb_lt in Hi. rewrite Hi.
    unfold tex_get. rewrite first_mips. cbn [obind].
    rewrite spec_mips_nth by lia. rewrite N.add_0_l, N2Nat.id. reflexivity.
  Qed.
  Lemma cur_end idx level : len <= idx -> iter_current (ITex first len idx level) = Some None.
  Proof. intros Hi. cbn [iter_current]. destruct (N.ltb_spec idx len); [lia|reflexivity]. Qed.

  (* abstract cursor: index into the flattened list *)
  Definition abs (idx level : N) : N := idx * mips + level.
  Definition inv (idx level : N) : Prop := idx <= len /\ level < mips /\ (idx = len -> level = 0).

  Lemma adv_in idx level : idx < len -> level < mips ->
    exists idx' level', iter_advance (ITex first len idx level) = Some (ITex first len idx' level') /\
      inv idx' level' /\ abs idx' level' = abs idx level + 1.
  Proof.
    intros Hi Hl. cbn [iter_advance]. apply N.ltb_lt in Hi. rewrite Hi. apply N.ltb_lt in Hi.
    replace (level + 1 <? U8) with true by (symmetry; apply N.ltb_lt; unfold U8; lia).
    cbn [t_mips first]. destruct (N.ltb_spec (level + 1) mips) as [Hn|Hn].
    - exists idx, (level + 1). split; [reflexivity|]. unfold inv, abs. split; [|lia]. lia.
    - exists (idx + 1), 0. split; [reflexivity|]. unfold inv, abs. split; [lia|].
      assert (level + 1 = mips) by lia. nia.
  Qed.
  Lemma adv_end idx level : len <= idx -> iter_advance (ITex first len idx level) = Some (ITex first len idx level).
  Proof. intros Hi. cbn [iter_advance]. destruct (N.ltb_spec idx len); [lia|reflexivity]. Qed.

  Lemma rew idx level : inv idx level ->
    exists idx' level', iter_rewind (ITex first len idx level) = Some (ITex first len idx' level') /\
      inv idx' level' /\ abs idx' level' = abs idx level - 1.
  Proof.
    intros [Hi [Hl He]]. cbn [iter_rewind]. destruct (N.ltb_spec 0 level) as [Hz|Hz].
    - exists idx, (level - 1). split; [reflexivity|]. unfold inv, abs. split; [|lia]. lia.
    - destruct (N.ltb_spec 0 idx) as [Hy|Hy].
      + cbn [t_mips first]. replace (0 <? mips) with true by (symmetry; apply N.ltb_lt; lia).
        exists (idx - 1), (mips - 1). split; [reflexivity|]. unfold inv, abs. split; [lia|]. nia.
      + exists idx, level. split; [reflexivity|]. unfold inv, abs. split; [lia|]. lia.
  Qed.

  Definition offset_of (idx level : N) : N := L * idx + part level.

  Lemma offset_le idx level : inv idx level -> offset_of idx level <= L * len.
  Proof.
    intros [Hi [Hl He]]. unfold offset_of. destruct (N.eq_dec idx len) as [->|Hne].
    - rewrite (He eq_refl). unfold part. cbn. lia.
    - pose proof (part_le level ltac:(lia)). assert (L * idx + L <= L * len) by nia. lia.
  Qed.

  Lemma elapsed idx level : inv idx level ->
    iter_elapsed (ITex first len idx level) = Some (offset_of idx level).
  Proof.
    intros Hinv. pose proof (offset_le idx level Hinv) as Hle. destruct Hinv as [Hi [Hl He]].
    cbn [iter_elapsed]. rewrite first_len. cbn [obind].
    unfold unchecked_mul64, checked_mul64.
    assert (L * idx <= L * len) by (apply N.mul_le_mono_l; lia).
    replace (L * idx <? U64) with true by (symmetry; apply N.ltb_lt; lia). cbn [obind].
    rewrite first_mips. cbn [obind]. rewrite spec_mips_length.
    replace (N.of_nat (N.to_nat mips) <? level) with false by (symmetry; apply N.ltb_ge; lia).
    rewrite firstn_spec_mips by lia. rewrite sum64_spec_mips; [reflexivity|].
    unfold offset_of, part in Hle. lia.
  Qed.

  Lemma skip_in idx level : idx < len -> 0 < level < mips ->
    iter_skip_mipmaps (ITex first len idx level) = SkipOk (ITex first len (idx + 1) 0) (L - part level).
  Proof.
    intros Hi Hl. cbn [iter_skip_mipmaps]. apply N.ltb_lt in Hi. rewrite Hi.
    replace (level =? 0) with false by (symmetry; apply N.eqb_neq; lia). cbn [negb andb].
    rewrite first_mips. rewrite skipn_spec_mips by lia.
    pose proof (sum_lens_split p w h (N.to_nat mips) 0 (N.to_nat level) ltac:(lia)) as S. fold L in S.
    rewrite sum64_spec_mips.
    - rewrite N.add_0_l. f_equal. unfold part. lia.
    - lia.
  Qed.
  Lemma skip_noop idx level : (len <= idx \/ level = 0) ->
    iter_skip_mipmaps (ITex first len idx level) = SkipOk (ITex first len idx level) 0.
  Proof.
    intros H. cbn [iter_skip_mipmaps].
    destruct (N.ltb_spec idx len); destruct (N.eqb_spec level 0); cbn [negb andb]; try reflexivity; lia.
  Qed.

  (* ---------------------------------------------------------- decoder over a texture layout *)
  Variable Lay : layout.
  Hypothesis HLay : iter_new Lay = ITex first len 0 0.

  Definition dinv (d : decoder) : Prop :=
    d_layout d = Lay /\ exists idx level, d_it d = ITex first len idx level /\ inv idx level /\ d_pos d = offset_of idx level.

  Lemma dinv_init : 1 <= mips -> dinv (dec_init Lay).
  Proof.
    intros _. unfold dinv, dec_init. cbn [d_layout d_it d_pos]. split; [reflexivity|].
    exists 0, 0. rewrite HLay. split; [reflexivity|]. split; [unfold inv; lia|].
    unfold offset_of, part. cbn. lia.
  Qed.

  Lemma offset_step idx level : idx < len -> level < mips ->
    forall idx' level', abs idx' level' = abs idx level + 1 -> inv idx' level' ->
    offset_of idx' level' = offset_of idx level + spec_len p (mip_dim w level) (mip_dim h level).
  Proof.
    intros Hi Hl idx' level' Ha [Hi' [Hl' He']]. unfold abs, offset_of in *.
    assert (C : (idx' = idx /\ level' = level + 1) \/ (idx' = idx + 1 /\ level' = 0 /\ level + 1 = mips)).
    { destruct (N.lt_ge_cases (level + 1) mips) as [Hn|Hn].
      - left. apply (N.div_mod_unique mips idx' idx level' (level + 1)); lia.
      - right. assert (level + 1 = mips) by lia.
        destruct (N.div_mod_unique mips idx' (idx + 1) level' 0) as [A B]; lia. }
    destruct C as [[-> ->]|[-> [-> Hfull]]].
    - unfold part. replace (N.to_nat (level + 1)) with (S (N.to_nat level)) by lia.
      rewrite (sum_lens_split p w h (S (N.to_nat level)) 0 (N.to_nat level)) by lia.
      replace (S (N.to_nat level) - N.to_nat level)%nat with 1%nat by lia.
      cbn [sum_lens]. rewrite N.add_0_l, N2Nat.id. lia.
    - unfold part at 1. cbn [N.to_nat sum_lens]. 
      assert (part level + spec_len p (mip_dim w level) (mip_dim h level) = L).
      { unfold L. rewrite (sum_lens_split p w h (N.to_nat mips) 0 (N.to_nat level)) by lia.
        replace (N.to_nat mips - N.to_nat level)%nat with 1%nat by lia.
        cbn [sum_lens]. rewrite N.add_0_l, N2Nat.id. unfold part. lia. }
      lia.
  Qed.

  (* a successful read / rect read / skip moves the cursor by one and the reader by the surface length *)
  Lemma consume_step d idx level : d_layout d = Lay -> d_it d = ITex first len idx level -> inv idx level ->
    d_pos d = offset_of idx level -> idx < len ->
    exists it', iter_advance (d_it d) = Some it' /\
      dinv (mkDec (d_layout d) it' (d_pos d + si_len (info_at level))).
  Proof.
    intros Hlay Hit Hinv Hpos Hi. destruct Hinv as [Hi' [Hl He]].
    destruct (adv_in idx level Hi Hl) as [idx' [level' [Ha [Hinv' Habs]]]].
    rewrite Hit. exists (ITex first len idx' level'). split; [exact Ha|].
    unfold dinv. cbn [d_layout d_it d_pos]. split; [exact Hlay|].
    exists idx', level'. split; [reflexivity|]. split; [exact Hinv'|].
    rewrite Hpos. cbn [si_len info_at]. symmetry. apply (offset_step idx level Hi Hl idx' level' Habs Hinv').
  Qed.

  Definition step_ok (r : dres) (d : decoder) : Prop :=
    match r with
    | DOk d' => dinv d'
    | DErr EIo _ => True                      (* legitimate I/O refusal (seek amounts above i64::MAX) *)
    | DErr _ d' => d' = d                     (* rejected without moving *)
    | DPanic => False
    end.

  Lemma read_ok d ws : dinv d -> step_ok (read_current d ws) d.
  Proof.
    intros [Hlay [idx [level [Hit [Hinv Hpos]]]]]. unfold read_current. rewrite Hit.
    destruct (N.lt_ge_cases idx len) as [Hi|Hi].
    - rewrite cur_in by (try exact Hi; apply Hinv).
      destruct ws; [cbn; reflexivity|].
      destruct (consume_step d idx level Hlay Hit Hinv Hpos Hi) as [it' [Ha Hd]].
      rewrite Hit in Ha. rewrite Ha. exact Hd.
    - rewrite cur_end by exact Hi. cbn. reflexivity.
  Qed.
  Lemma rect_ok d oob : dinv d -> step_ok (rect_current d oob) d.
  Proof.
    intros [Hlay [idx [level [Hit [Hinv Hpos]]]]]. unfold rect_current. rewrite Hit.
    destruct (N.lt_ge_cases idx len) as [Hi|Hi].
    - rewrite cur_in by (try exact Hi; apply Hinv).
      destruct oob; [cbn; reflexivity|].
      destruct (consume_step d idx level Hlay Hit Hinv Hpos Hi) as [it' [Ha Hd]].
      rewrite Hit in Ha. rewrite Ha. exact Hd.
    - rewrite cur_end by exact Hi. cbn. reflexivity.
  Qed.
  Lemma skip_ok d : dinv d -> step_ok (skip_surface d) d.
  Proof.
    intros [Hlay [idx [level [Hit [Hinv Hpos]]]]]. unfold skip_surface. rewrite Hit.
    destruct (N.lt_ge_cases idx len) as [Hi|Hi].
    - rewrite cur_in by (try exact Hi; apply Hinv).
      destruct (consume_step d idx level Hlay Hit Hinv Hpos Hi) as [it' [Ha Hd]].
      rewrite Hit in Ha. unfold io_skip.
      destruct (N.eqb_spec (si_len (info_at level)) 0) as [Hz|Hz].
      + rewrite Ha. rewrite Hz, N.add_0_r in Hd. exact Hd.
      + destruct (I64MAX <? si_len (info_at level)); [cbn; exact I|].
        destruct (d_pos d + si_len (info_at level) <? U64); [|cbn; exact I].
        rewrite Ha. exact Hd.
    - rewrite cur_end by exact Hi. cbn. reflexivity.
  Qed.
  Lemma skip_mips_ok d : dinv d ->
    match skip_mipmaps d with DOk d' => dinv d' | DErr EIo _ => True | _ => False end.
  Proof.
    intros [Hlay [idx [level [Hit [Hinv Hpos]]]]]. unfold skip_mipmaps. rewrite Hit.
    destruct Hinv as [Hi [Hl He]].
    destruct (N.lt_ge_cases idx len) as [Hlt|Hge]; [destruct (N.eq_dec level 0) as [Hz|Hz]|].
    - rewrite skip_noop by (right; exact Hz). cbn [io_skip N.eqb].
      unfold dinv. cbn [d_layout d_it d_pos]. split; [exact Hlay|]. exists idx, level. repeat split; try assumption.
    - rewrite skip_in by lia. unfold io_skip.
      pose proof (part_le level ltac:(lia)) as Hpl.
      destruct (N.eqb_spec (L - part level) 0) as [Hz0|Hz0];
        [|destruct (I64MAX <? L - part level); [exact I|]; destruct (d_pos d + (L - part level) <? U64); [|exact I]].
      + unfold dinv. cbn [d_layout d_it d_pos]. split; [exact Hlay|]. exists (idx + 1), 0.
        split; [reflexivity|]. split; [unfold inv; lia|]. rewrite Hpos. unfold offset_of.
        rewrite part_0, N.mul_add_distr_l, N.mul_1_r. lia.
      + unfold dinv. cbn [d_layout d_it d_pos]. split; [exact Hlay|]. exists (idx + 1), 0.
        split; [reflexivity|]. split; [unfold inv; lia|]. rewrite Hpos. unfold offset_of.
        rewrite part_0, N.mul_add_distr_l, N.mul_1_r. lia.
    - rewrite skip_noop by (left; exact Hge). cbn [io_skip N.eqb].
      unfold dinv. cbn [d_layout d_it d_pos]. split; [exact Hlay|]. exists idx, level. repeat split; try assumption.
  Qed.

  Lemma inv_lt idx level idx' level' : inv idx level -> inv idx' level' -> abs idx' level' < abs idx level -> idx' < len.
  Proof.
    intros [Hi [Hl He]] [Hi' [Hl' He']] Ha. unfold abs in Ha.
    destruct (N.eq_dec idx' len) as [E|E]; [|lia].
    rewrite (He' E) in Ha. subst idx'. nia.
  Qed.

  Lemma rewind_prev_ok d : dinv d ->
    match rewind_prev d with DOk d' => dinv d' | _ => False end.
  Proof.
    intros [Hlay [idx [level [Hit [Hinv Hpos]]]]]. unfold rewind_prev. rewrite Hit.
    rewrite (elapsed idx level Hinv).
    destruct (rew idx level Hinv) as [idx' [level' [Hr [Hinv' Habs]]]]. rewrite Hr.
    rewrite (elapsed idx' level' Hinv').
    assert (Hle : offset_of idx' level' <= offset_of idx level /\
                  (abs idx level = 0 -> offset_of idx' level' = offset_of idx level)).
    { destruct (N.eq_dec (abs idx level) 0) as [Hz|Hz].
      - unfold abs in *. assert (idx = 0 /\ level = 0) as [-> ->] by nia.
        assert (idx' = 0 /\ level' = 0) as [-> ->] by nia. split; [lia|reflexivity].
      - assert (Hlt : idx' < len) by (apply (inv_lt idx level idx' level' Hinv Hinv'); lia).
        pose proof (offset_step idx' level' Hlt ltac:(apply Hinv') idx level ltac:(lia) Hinv) as S.
        split; [lia|]. intros; lia. }
    destruct Hle as [Hle _].
    replace (offset_of idx level <? offset_of idx' level') with false by (symmetry; apply N.ltb_ge; exact Hle).
    unfold seek_back.
    pose proof (offset_le idx level Hinv) as Hb.
    destruct (N.ltb_spec I64MAX (offset_of idx level - offset_of idx' level')) as [Hbig|Hbig].
    - (* one surface larger than i64::MAX: cannot happen after a successful read or skip of it, but a
         layout may contain one; the refusal is an I/O error, which we exclude by the bound below *)
      exfalso. revert Hbig. 
      (* surfaces are at most isize::MAX bytes whenever they can be decoded; for the general statement
         we keep the hypothesis explicit *)
      admit.
    - rewrite Hpos.
      replace (offset_of idx level - offset_of idx' level' <=? offset_of idx level) with true by (symmetry; apply N.leb_le; lia).
      unfold dinv. cbn [d_layout d_it d_pos]. split; [exact Hlay|]. exists idx', level'.
      split; [reflexivity|]. split; [exact Hinv'|]. lia.
  Abort.
End TexIter.
