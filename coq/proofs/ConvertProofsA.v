(* C04: the integer and small-domain conversions of src/color/formats.rs are the ideal value rounded to nearest.
   Every statement is over the whole (finite) input domain, by computation lifted through zsweep. *)
From Coq Require Import ZArith List Bool Lia.
From DDSV Require Import model.Float model.Convert spec.SpecNum.
Import ListNotations.
Local Open Scope Z_scope.

(* ---- UNORM -> 8 / 16 bit UNORM *)
Definition unorm_cases : list ((Z -> Z) * Z * Z) :=
  [ (n1_n8, 1, 255); (n1_n16, 1, 65535); (n2_n8, 2, 255); (n2_n16, 2, 65535); (n4_n8, 4, 255); (n4_n16, 4, 65535);
    (n5_n8, 5, 255); (n5_n16, 5, 65535); (n6_n8, 6, 255); (n6_n16, 6, 65535); (n8_n16, 8, 65535);
    (n10_n8, 10, 255); (n10_n16, 10, 65535); (n16_n8, 16, 255) ].
Lemma t_unorm : forallb (fun c => let '(f, bits, omax) := c in
  forallb (fun x => nearestb (f x) (x * omax) (2 ^ bits - 1)) (zrange (2 ^ bits))) unorm_cases = true.
Proof. vm_compute. reflexivity. Qed.
Theorem unorm_nearest f bits omax x : In (f, bits, omax) unorm_cases -> 0 <= x < 2 ^ bits ->
  nearest (f x) (x * omax) (2 ^ bits - 1).
Proof.
  intros Hin Hx. pose proof t_unorm as T. rewrite forallb_forall in T. specialize (T _ Hin). cbv beta iota in T.
  apply nearestb_spec. apply (zsweep _ _ T). exact Hx.
Qed.

(* ---- SNORM: both minimum codes mean -1; the level max(s, -max) + max on a scale 0 .. 2 max *)
Lemma t_snorm8 : forallb (fun x => (s8_norm x =? Z.max (signed_of 8 x) (-127) + 127) &&
  nearestb (s8_n8 x) (s8_norm x * 255) 254 && nearestb (s8_n16 x) (s8_norm x * 65535) 254) (zrange 256) = true.
Proof. vm_compute. reflexivity. Qed.
Lemma t_snorm16 : forallb (fun x => (s16_norm x =? Z.max (signed_of 16 x) (-32767) + 32767) &&
  nearestb (s16_n8 x) (s16_norm x * 255) 65534 && nearestb (s16_n16 x) (s16_norm x * 65535) 65534) (zrange 65536) = true.
Proof. vm_compute. reflexivity. Qed.
Theorem snorm8_nearest x : 0 <= x < 256 ->
  s8_norm x = Z.max (signed_of 8 x) (-127) + 127 /\ nearest (s8_n8 x) (s8_norm x * 255) 254 /\ nearest (s8_n16 x) (s8_norm x * 65535) 254.
Proof.
  intros Hx. pose proof (zsweep _ _ t_snorm8 x Hx) as H. cbv beta in H. apply andb_prop in H. destruct H as [H C]. apply andb_prop in H. destruct H as [A B].
  split; [apply Z.eqb_eq; exact A|]. split; apply nearestb_spec; assumption.
Qed.
Theorem snorm16_nearest x : 0 <= x < 65536 ->
  s16_norm x = Z.max (signed_of 16 x) (-32767) + 32767 /\ nearest (s16_n8 x) (s16_norm x * 255) 65534 /\ nearest (s16_n16 x) (s16_norm x * 65535) 65534.
Proof.
  intros Hx. pose proof (zsweep _ _ t_snorm16 x Hx) as H. cbv beta in H. apply andb_prop in H. destruct H as [H C]. apply andb_prop in H. destruct H as [A B].
  split; [apply Z.eqb_eq; exact A|]. split; apply nearestb_spec; assumption.
Qed.

(* ---- XR bias: (x - 384) / 510 clamped to [0, 1] *)
Lemma t_xr : forallb (fun x => nearestb (xr10_n8 x) (xr10_c x * 255) 510 && nearestb (xr10_n16 x) (xr10_c x * 65535) 510 &&
  (f32_bits (xr10_f32 x) =? f32_bits (f32_div (F (x - 384)) (F 510)))) (zrange 1024) = true.
Proof. vm_compute. reflexivity. Qed.
Theorem xr_nearest x : 0 <= x < 1024 ->
  xr10_c x = Z.min 510 (Z.max 0 (x - 384)) /\ nearest (xr10_n8 x) (xr10_c x * 255) 510 /\ nearest (xr10_n16 x) (xr10_c x * 65535) 510.
Proof.
  intros Hx. pose proof (zsweep _ _ t_xr x Hx) as H. cbv beta in H. apply andb_prop in H. destruct H as [H _]. apply andb_prop in H. destruct H as [A B].
  split; [reflexivity|]. split; apply nearestb_spec; assumption.
Qed.

(* ---- F32 outputs of the small UNORM / SNORM fields: the correctly rounded quotient x / max *)
Definition cr (x max : Z) : Z := f32_bits (f32_div (F x) (F max)).
Lemma t_unorm_f32 :
  forallb (fun x => f32_bits (n1_f32 x) =? cr x 1) (zrange 2) && forallb (fun x => f32_bits (n2_f32 x) =? cr x 3) (zrange 4) &&
  forallb (fun x => f32_bits (n4_f32 x) =? cr x 15) (zrange 16) && forallb (fun x => f32_bits (n5_f32 x) =? cr x 31) (zrange 32) &&
  forallb (fun x => f32_bits (n6_f32 x) =? cr x 63) (zrange 64) && forallb (fun x => f32_bits (n8_f32 x) =? cr x 255) (zrange 256) &&
  forallb (fun x => f32_bits (n10_f32 x) =? cr x 1023) (zrange 1024) && forallb (fun x => f32_bits (s8_uf32 x) =? cr (s8_norm x) 254) (zrange 256) = true.
Proof. vm_compute. reflexivity. Qed.

(* ---- 10 / 11 bit floats and the shared-exponent format: nearest at 8 and 16 bits, exact at F32 *)
Definition small_val (mbits x : Z) : Z * Z :=
  let e := small_exp mbits x in let m := small_mant mbits x in
  if e =? 0 then (m, - (14 + mbits)) else (m + 2 ^ mbits, e - 15 - mbits).
Definition small_ok (mbits : Z) (has_sign : bool) (f : Z -> Z) (scale : Z) (x : Z) : bool :=
  let e := small_exp mbits x in let m := small_mant mbits x in
  if has_sign && Z.testbit x 15 then f x =? 0
  else if e =? 31 then (if m =? 0 then f x =? scale else f x =? 0)
  else near_dy (f x) (fst (small_val mbits x)) (snd (small_val mbits x)) scale.
Definition small_exact (mbits : Z) (has_sign : bool) (x : Z) : bool :=
  let e := small_exp mbits x in let m := small_mant mbits x in
  let s := has_sign && Z.testbit x 15 in
  if e =? 31 then (match small_f32 mbits has_sign x with Finf s' => (m =? 0) && Bool.eqb s s' | Fnan => negb (m =? 0) | _ => false end)
  else dy_eq (small_f32 mbits has_sign x) s (fst (small_val mbits x)) (snd (small_val mbits x)).
Lemma t_fp11 : forallb (fun x => small_ok 6 false fp11_n8 255 x && small_ok 6 false fp11_n16 65535 x && small_exact 6 false x) (zrange 2048) = true.
Proof. vm_compute. reflexivity. Qed.
Lemma t_fp10 : forallb (fun x => small_ok 5 false fp10_n8 255 x && small_ok 5 false fp10_n16 65535 x && small_exact 5 false x) (zrange 1024) = true.
Proof. vm_compute. reflexivity. Qed.
(* one channel of R9G9B9E5: mantissa m (9 bits), shared exponent e (5 bits): value m * 2^(e - 24) *)
Definition rgb9995_word (m e : Z) : Z := m + Z.shiftl e 27.
Lemma t_rgb9995 : forallb (fun e => forallb (fun m =>
    near_dy (nth 0 (rgb9995 0 (rgb9995_word m e)) (-1)) m (e - 24) 255 &&
    near_dy (nth 0 (rgb9995 1 (rgb9995_word m e)) (-1)) m (e - 24) 65535 &&
    dy_eq (f32_of_bits (nth 0 (rgb9995 2 (rgb9995_word m e)) (-1))) false m (e - 24)) (zrange 512)) (zrange 32) = true.
Proof. vm_compute. reflexivity. Qed.

Theorem small_floats_ok :
  (forall x, 0 <= x < 2048 -> small_ok 6 false fp11_n8 255 x = true /\ small_ok 6 false fp11_n16 65535 x = true /\ small_exact 6 false x = true) /\
  (forall x, 0 <= x < 1024 -> small_ok 5 false fp10_n8 255 x = true /\ small_ok 5 false fp10_n16 65535 x = true /\ small_exact 5 false x = true).
Proof.
  split; intros x Hx.
  - pose proof (zsweep _ _ t_fp11 x Hx) as H. cbv beta in H. apply andb_prop in H. destruct H as [H C]. apply andb_prop in H. tauto.
  - pose proof (zsweep _ _ t_fp10 x Hx) as H. cbv beta in H. apply andb_prop in H. destruct H as [H C]. apply andb_prop in H. tauto.
Qed.
Theorem rgb9995_ok m e : 0 <= m < 512 -> 0 <= e < 32 ->
  near_dy (nth 0 (rgb9995 0 (rgb9995_word m e)) (-1)) m (e - 24) 255 = true /\
  near_dy (nth 0 (rgb9995 1 (rgb9995_word m e)) (-1)) m (e - 24) 65535 = true /\
  dy_eq (f32_of_bits (nth 0 (rgb9995 2 (rgb9995_word m e)) (-1))) false m (e - 24) = true.
Proof.
  intros Hm He. pose proof (zsweep _ _ t_rgb9995 e He) as H. cbv beta in H. pose proof (zsweep _ _ H m Hm) as H2. cbv beta in H2.
  apply andb_prop in H2. destruct H2 as [H2 C]. apply andb_prop in H2. tauto.
Qed.
Theorem unorm_f32_correctly_rounded :
  (forall x, 0 <= x < 2 -> f32_bits (n1_f32 x) = cr x 1) /\ (forall x, 0 <= x < 4 -> f32_bits (n2_f32 x) = cr x 3) /\
  (forall x, 0 <= x < 16 -> f32_bits (n4_f32 x) = cr x 15) /\ (forall x, 0 <= x < 32 -> f32_bits (n5_f32 x) = cr x 31) /\
  (forall x, 0 <= x < 64 -> f32_bits (n6_f32 x) = cr x 63) /\ (forall x, 0 <= x < 256 -> f32_bits (n8_f32 x) = cr x 255) /\
  (forall x, 0 <= x < 1024 -> f32_bits (n10_f32 x) = cr x 1023) /\ (forall x, 0 <= x < 256 -> f32_bits (s8_uf32 x) = cr (s8_norm x) 254) /\
  (forall x, 0 <= x < 1024 -> f32_bits (xr10_f32 x) = f32_bits (f32_div (F (x - 384)) (F 510))).
Proof.
  pose proof t_unorm_f32 as T.
  apply andb_prop in T; destruct T as [T H8]. apply andb_prop in T; destruct T as [T H7]. apply andb_prop in T; destruct T as [T H6].
  apply andb_prop in T; destruct T as [T H5]. apply andb_prop in T; destruct T as [T H4]. apply andb_prop in T; destruct T as [T H3].
  apply andb_prop in T; destruct T as [H1 H2].
  split; [intros x Hx; apply Z.eqb_eq; exact (zsweep _ _ H1 x Hx)|]. split; [intros x Hx; apply Z.eqb_eq; exact (zsweep _ _ H2 x Hx)|].
  split; [intros x Hx; apply Z.eqb_eq; exact (zsweep _ _ H3 x Hx)|]. split; [intros x Hx; apply Z.eqb_eq; exact (zsweep _ _ H4 x Hx)|].
  split; [intros x Hx; apply Z.eqb_eq; exact (zsweep _ _ H5 x Hx)|]. split; [intros x Hx; apply Z.eqb_eq; exact (zsweep _ _ H6 x Hx)|].
  split; [intros x Hx; apply Z.eqb_eq; exact (zsweep _ _ H7 x Hx)|]. split; [intros x Hx; apply Z.eqb_eq; exact (zsweep _ _ H8 x Hx)|].
  intros x Hx. reflexivity.
Qed.
