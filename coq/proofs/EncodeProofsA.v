(* C12: 8-bit inputs.  Round trips are exact into every format whose stored channels have at least 8 bits;
   narrower fields receive the nearest code.  All statements are over all 256 input values. *)
From Coq Require Import ZArith List Bool Lia.
From DDSV Require Import model.Float model.Convert model.Encode spec.SpecNum.
Import ListNotations.
Local Open Scope Z_scope.
Definition b8 (x : Z) : Z := f32_bits (n8_f32 x).
Lemma t_rt8 : forallb (fun x => let b := b8 x in
  (n8_from b =? x) && (n10_n8 (n10_from b) =? x) && (n16_n8 (n16_from b) =? x) && (fp16_n8 (fp16_from b) =? x) &&
  (fp_n8 (V b) =? x) && (nth 0 (rgb9995 0 (rgb9995_from b b b)) (-1) =? x) &&
  (* and at the wider precisions the stored value is the exactly widened one *)
  (n16_from b =? n8_n16 x)) (zrange 256) = true.
Proof. vm_compute. reflexivity. Qed.
Theorem roundtrip_u8 x : 0 <= x < 256 ->
  n8_from (b8 x) = x /\ n10_n8 (n10_from (b8 x)) = x /\ n16_n8 (n16_from (b8 x)) = x /\ fp16_n8 (fp16_from (b8 x)) = x /\ fp_n8 (V (b8 x)) = x /\
  nth 0 (rgb9995 0 (rgb9995_from (b8 x) (b8 x) (b8 x))) (-1) = x /\ n16_from (b8 x) = n8_n16 x.
Proof.
  intros Hx. pose proof (zsweep _ _ t_rt8 x Hx) as H. cbv beta zeta in H.
  apply andb_prop in H; destruct H as [H H7]. apply andb_prop in H; destruct H as [H H6]. apply andb_prop in H; destruct H as [H H5].
  apply andb_prop in H; destruct H as [H H4]. apply andb_prop in H; destruct H as [H H3]. apply andb_prop in H; destruct H as [H1 H2].
  repeat split; apply Z.eqb_eq; assumption.
Qed.
Lemma t_q8 : forallb (fun x => let b := b8 x in
  nearestb (n5_from b) (x * 31) 255 && nearestb (n6_from b) (x * 63) 255 && nearestb (n4_from b) (x * 15) 255 &&
  nearestb (n2_from b) (x * 3) 255 && (n1_from b =? (if 128 <=? x then 1 else 0)) &&
  nearestb (s8_norm (s8_from b)) (x * 254) 255 && nearestb (Z.min 510 (Z.max 0 (xr10_from b - 384))) (x * 510) 255) (zrange 256) = true.
Proof. vm_compute. reflexivity. Qed.
Theorem quantise_u8 x : 0 <= x < 256 ->
  nearest (n5_from (b8 x)) (x * 31) 255 /\ nearest (n6_from (b8 x)) (x * 63) 255 /\ nearest (n4_from (b8 x)) (x * 15) 255 /\
  nearest (n2_from (b8 x)) (x * 3) 255 /\ n1_from (b8 x) = (if 128 <=? x then 1 else 0) /\ nearest (s8_norm (s8_from (b8 x))) (x * 254) 255 /\
  nearest (Z.min 510 (Z.max 0 (xr10_from (b8 x) - 384))) (x * 510) 255.
Proof.
  intros Hx. pose proof (zsweep _ _ t_q8 x Hx) as H. cbv beta zeta in H.
  apply andb_prop in H; destruct H as [H H7]. apply andb_prop in H; destruct H as [H H6]. apply andb_prop in H; destruct H as [H H5].
  apply andb_prop in H; destruct H as [H H4]. apply andb_prop in H; destruct H as [H H3]. apply andb_prop in H; destruct H as [H1 H2].
  split; [apply nearestb_spec; exact H1|]. split; [apply nearestb_spec; exact H2|]. split; [apply nearestb_spec; exact H3|].
  split; [apply nearestb_spec; exact H4|]. split; [apply Z.eqb_eq; exact H5|]. split; [apply nearestb_spec; exact H6|apply nearestb_spec; exact H7].
Qed.
