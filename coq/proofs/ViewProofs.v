From DDSV Require Import base.Machine model.View spec.SpecView.

Local Ltac dif := match goal with
  | |- context [if ?c then _ else _] => let E := fresh "E" in destruct c eqn:E
  end.

(* ---------------------------------------------------------------- new_with *)

Lemma new_with_core_iff len pitch w h bpp :
  len < U64 ->
  (addressable len pitch w h bpp ->
     new_with_core len pitch w h bpp = Some (mkView 0 (pitch * (h - 1) + w * bpp) w h bpp pitch)) /\
  (~ addressable len pitch w h bpp -> new_with_core len pitch w h bpp = None).
Proof.
  intros Hlen. unfold addressable, new_with_core.
  unfold saturating_sub, checked_mul64, checked_add64, obind.
  destruct (N.ltb_spec pitch (w * bpp)) as [Hp|Hp].
  { split; [lia|reflexivity]. }
  destruct (N.ltb_spec (pitch * (h - 1)) U64) as [Hm|Hm].
  2:{ split; [|reflexivity]. intros [_ H]. lia. }
  destruct (N.ltb_spec (pitch * (h - 1) + w * bpp) U64) as [Ha|Ha].
  2:{ split; [|reflexivity]. intros [_ H]. lia. }
  destruct (N.ltb_spec len (pitch * (h - 1) + w * bpp)) as [Hl|Hl].
  { split; [lia|reflexivity]. }
  split; [reflexivity|]. intros H. exfalso. apply H. lia.
Qed.

Lemma new_with_iff len pitch w h bpp :
  len < U64 ->
  let w' := norm_w w h in let h' := norm_h w h in let p' := norm_pitch w h pitch in
  (addressable len p' w' h' bpp ->
     view_new_with len pitch w h bpp = Some (mkView 0 (p' * (h' - 1) + w' * bpp) w' h' bpp p')) /\
  (~ addressable len p' w' h' bpp -> view_new_with len pitch w h bpp = None).
Proof.
  intros Hlen. unfold norm_w, norm_h, norm_pitch, view_new_with, is_empty.
  destruct ((w =? 0) || (h =? 0)) eqn:Em; cbn zeta; apply new_with_core_iff; exact Hlen.
Qed.

(* the unchecked product in new_with cannot overflow for u32 widths and bpp <= 16 *)
Lemma bytes_per_row_fits w bpp : w < U32 -> bpp <= 16 -> w * bpp < U64.
Proof. unfold U32, U64. nia. Qed.

(* ---------------------------------------------------------------- new *)

Lemma new_core_iff len w h bpp :
  len <= I64MAX ->
  (len = w * h * bpp -> new_core len w h bpp = Some (mkView 0 len w h bpp (w * bpp))) /\
  (len <> w * h * bpp -> new_core len w h bpp = None).
Proof.
  intros Hlen. unfold new_core, saturating_mul64. unfold I64MAX, U64 in *.
  destruct (N.eqb_spec len (N.min (w * h * bpp) (18446744073709551616 - 1))) as [E|E]; split; intros H; try reflexivity; try lia.
Qed.

Lemma new_iff len w h bpp :
  len <= I64MAX ->
  let w' := norm_w w h in let h' := norm_h w h in
  (len = w' * h' * bpp -> view_new len w h bpp = Some (mkView 0 len w' h' bpp (w' * bpp))) /\
  (len <> w' * h' * bpp -> view_new len w h bpp = None).
Proof.
  intros Hlen. unfold norm_w, norm_h, view_new, is_empty.
  destruct ((w =? 0) || (h =? 0)) eqn:Em; cbn zeta; apply new_core_iff; exact Hlen.
Qed.

(* Size::pixels() = w as u64 * h as u64 does not overflow *)
Lemma pixels_fits w h : w < U32 -> h < U32 -> w * h < U64.
Proof. unfold U32, U64. nia. Qed.

(* ---------------------------------------------------------------- well-formed views *)

Definition wf (v : view) : Prop :=
  (v_w v = 0 /\ v_h v = 0 /\ v_pitch v = 0 /\ v_len v = 0) \/
  (0 < v_w v /\ 0 < v_h v /\ 0 < v_bpp v /\ v_w v * v_bpp v <= v_pitch v /\
   v_len v = v_pitch v * (v_h v - 1) + v_w v * v_bpp v).

Lemma new_with_wf len pitch w h bpp v :
  len < U64 -> 0 < bpp -> view_new_with len pitch w h bpp = Some v -> wf v /\ v_len v <= len /\ v_off v = 0.
Proof.
  intros Hlen Hb H.
  destruct (new_with_iff len pitch w h bpp Hlen) as [Hy Hn].
  unfold norm_w, norm_h, norm_pitch, addressable in *.
  destruct ((w =? 0) || (h =? 0)) eqn:Em.
  - rewrite Hy in H by lia. injection H as <-. unfold wf; cbn. split; [left|]; lia.
  - assert (A : w * bpp <= pitch /\ pitch * (h - 1) + w * bpp <= len).
    { destruct (N.le_gt_cases (w * bpp) pitch) as [A|A];
      destruct (N.le_gt_cases (pitch * (h - 1) + w * bpp) len) as [B|B]; try (split; assumption);
      rewrite Hn in H by lia; discriminate. }
    rewrite Hy in H by exact A. injection H as <-. unfold wf; cbn.
    split; [right|]; lia.
Qed.

Lemma new_wf len w h bpp v :
  len <= I64MAX -> 0 < bpp -> view_new len w h bpp = Some v -> wf v /\ v_len v = len /\ v_off v = 0.
Proof.
  intros Hlen Hb H.
  destruct (new_iff len w h bpp Hlen) as [Hy Hn].
  unfold norm_w, norm_h in *.
  destruct (N.eq_dec len ((if (w =? 0) || (h =? 0) then 0 else w) * (if (w =? 0) || (h =? 0) then 0 else h) * bpp)) as [E|E].
  2:{ rewrite Hn in H by exact E. discriminate. }
  rewrite Hy in H by exact E. injection H as <-. unfold wf; cbn.
  destruct ((w =? 0) || (h =? 0)) eqn:Em.
  - split; [left|]; lia.
  - split; [right|]; try lia. repeat split; try lia. rewrite E. nia.
Qed.

(* ---------------------------------------------------------------- rows *)

(* the rows of a view, relative to its data slice *)
Definition row_ranges (v : view) : list (N * N) :=
  map (fun y => (y * v_pitch v, y * v_pitch v + v_w v * v_bpp v)) (nseq (N.to_nat (v_h v)) 0).

Lemma row_ranges_spec v :
  row_ranges v = spec_rows (v_pitch v) (v_w v) (v_h v) (v_bpp v).
Proof.
  unfold row_ranges, spec_rows. change 0 with (N.of_nat 0). rewrite nseq_seq, map_map. reflexivity.
Qed.

Lemma wf_norm_h v : wf v -> (if is_empty (v_w v) (v_h v) then 0 else v_h v) = v_h v.
Proof.
  unfold wf, is_empty. intros [[Hw [Hh _]]|[Hw [Hh _]]].
  - rewrite Hw, Hh. reflexivity.
  - destruct (N.eqb_spec (v_w v) 0); [lia|]. destruct (N.eqb_spec (v_h v) 0); [lia|]. reflexivity.
Qed.

Lemma row_in_bounds v y : wf v -> y < v_h v ->
  y * v_pitch v + v_w v * v_bpp v <= v_len v.
Proof.
  intros [[Hw [Hh _]]|[Hw [Hh [Hb [Hp Hl]]]]] Hy; [lia|].
  rewrite Hl. assert (y * v_pitch v <= v_pitch v * (v_h v - 1)); [|lia].
  rewrite (N.mul_comm (v_pitch v)). apply N.mul_le_mono_r. lia.
Qed.

Lemma rows_ok v : wf v -> rows v = VOk (row_ranges v).
Proof.
  intros Hwf. unfold rows. rewrite (wf_norm_h v Hwf). fold (row_ranges v).
  replace (forallb _ (row_ranges v)) with true; [reflexivity|].
  symmetry. apply forallb_forall. intros [s e] Hin. unfold row_ranges in Hin.
  apply in_map_iff in Hin. destruct Hin as [y [Hy Hin]]. injection Hy as <- <-.
  apply nseq_In in Hin. cbn [fst snd]. unfold slice_ok.
  pose proof (row_in_bounds v y Hwf ltac:(lia)). 
  apply andb_true_intro. split; apply N.leb_le; lia.
Qed.

(* consecutive rows never overlap: row y ends before row y+1 starts *)
Lemma rows_disjoint v y : wf v -> y + 1 < v_h v ->
  y * v_pitch v + v_w v * v_bpp v <= (y + 1) * v_pitch v.
Proof. intros [[Hw [Hh _]]|[Hw [Hh [Hb [Hp Hl]]]]] Hy; lia. Qed.

(* ---------------------------------------------------------------- rows_mut *)

Lemma forallb_map' {A B} (f : A -> B) (p : B -> bool) l : forallb p (map f l) = forallb (fun x => p (f x)) l.
Proof. induction l as [|x l IH]; cbn [map forallb]; [reflexivity|]. rewrite IH. reflexivity. Qed.

Lemma wf_div_ceil v : wf v -> div_ceil (v_len v) (N.max (v_pitch v) 1) = v_h v.
Proof.
  intros [[Hw [Hh [Hp Hl]]]|[Hw [Hh [Hb [Hp Hl]]]]]; unfold div_ceil.
  - rewrite Hl, Hp, Hh. reflexivity.
  - assert (1 <= v_w v * v_bpp v) by nia.
    replace (N.max (v_pitch v) 1) with (v_pitch v) by lia. rewrite Hl.
    symmetry. apply (N.div_unique _ _ _ (v_w v * v_bpp v - 1)); [lia|]. nia.
Qed.

Lemma rows_mut_ok v : wf v -> rows_mut v = VOk (row_ranges v).
Proof.
  intros Hwf. unfold rows_mut, chunks. rewrite (wf_div_ceil v Hwf).
  assert (Hall : forall y, In y (nseq (N.to_nat (v_h v)) 0) ->
     let c := (y * N.max (v_pitch v) 1, N.min ((y + 1) * N.max (v_pitch v) 1) (v_len v)) in
     (v_w v * v_bpp v <=? snd c - fst c) = true /\
     (fst c, fst c + v_w v * v_bpp v) = (y * v_pitch v, y * v_pitch v + v_w v * v_bpp v)).
  { intros y Hin. apply nseq_In in Hin. cbn zeta. cbn [fst snd].
    destruct Hwf as [[Hw [Hh _]]|[Hw [Hh [Hb [Hp Hl]]]]]; [lia|].
    assert (1 <= v_w v * v_bpp v) by nia.
    replace (N.max (v_pitch v) 1) with (v_pitch v) by lia.
    split; [|reflexivity]. apply N.leb_le.
    destruct (N.eq_dec y (v_h v - 1)) as [->|Hne].
    - replace ((v_h v - 1 + 1) * v_pitch v) with (v_pitch v * (v_h v - 1) + v_pitch v) by nia.
      rewrite N.min_r by lia. rewrite Hl. lia.
    - assert ((y + 1) * v_pitch v <= v_pitch v * (v_h v - 1)).
      { rewrite (N.mul_comm (v_pitch v)). apply N.mul_le_mono_r. lia. }
      rewrite N.min_l by lia. nia. }
  rewrite forallb_map'.
  replace (forallb _ (nseq (N.to_nat (v_h v)) 0)) with true.
  - f_equal. unfold row_ranges. rewrite map_map. apply map_ext_in. intros y Hin.
    apply (Hall y Hin).
  - symmetry. apply forallb_forall. intros y Hin. apply (Hall y Hin).
Qed.

(* ---------------------------------------------------------------- crop *)

Lemma crop_rejects v ox oy cw ch :
  contains_rect (v_w v) (v_h v) ox oy cw ch = false -> cropped v ox oy cw ch = VPanic.
Proof. intros H. unfold cropped. rewrite H. reflexivity. Qed.

Definition crop_expected (v : view) (ox oy cw ch : N) : view :=
  if is_empty cw ch then mkView (v_off v) 0 0 0 (v_bpp v) 0
  else mkView (v_off v + (oy * v_pitch v + ox * v_bpp v))
              ((ch - 1) * v_pitch v + cw * v_bpp v) cw ch (v_bpp v) (v_pitch v).

Lemma crop_ok v ox oy cw ch :
  wf v -> v_len v < U64 -> contains_rect (v_w v) (v_h v) ox oy cw ch = true ->
  let v' := crop_expected v ox oy cw ch in
  cropped v ox oy cw ch = VOk v' /\ wf v' /\
  v_off v <= v_off v' /\ v_off v' + v_len v' <= v_off v + v_len v.
Proof.
  intros Hwf Hlen Hc. unfold cropped, crop_expected. rewrite Hc. cbn [negb].
  unfold contains_rect in Hc. apply andb_prop in Hc. destruct Hc as [Hx Hy].
  apply N.leb_le in Hx. apply N.leb_le in Hy.
  destruct (is_empty cw ch) eqn:Em; cbn zeta.
  - split; [reflexivity|]. split; [left; cbn; lia|]. cbn. lia.
  - unfold is_empty in Em. apply orb_false_elim in Em. destruct Em as [Ew Eh].
    apply N.eqb_neq in Ew. apply N.eqb_neq in Eh.
    destruct Hwf as [[Hw [Hh _]]|[Hw [Hh [Hb [Hp Hl]]]]]; [lia|].
    remember (v_pitch v) as P eqn:EP. remember (v_bpp v) as B eqn:EB.
    assert (Hrow : (oy + (ch - 1)) * P <= P * (v_h v - 1)).
    { rewrite (N.mul_comm P). apply N.mul_le_mono_r. lia. }
    assert (Hcol : ox * B + cw * B <= v_w v * B).
    { rewrite <- N.mul_add_distr_r. apply N.mul_le_mono_r. lia. }
    assert (Hend : oy * P + ox * B + (ch - 1) * P + cw * B <= v_len v).
    { rewrite Hl. rewrite N.mul_add_distr_r in Hrow. lia. }
    replace ((oy * P + ox * B + (ch - 1) * P + cw * B <? U64)) with true by (symmetry; apply N.ltb_lt; lia).
    unfold slice_ok.
    replace (oy * P + ox * B <=? oy * P + ox * B + (ch - 1) * P + cw * B) with true by (symmetry; apply N.leb_le; nia).
    replace (oy * P + ox * B + (ch - 1) * P + cw * B <=? v_len v) with true by (symmetry; apply N.leb_le; lia).
    cbn [andb].
    replace (oy * P + ox * B + (ch - 1) * P + cw * B - (oy * P + ox * B)) with ((ch - 1) * P + cw * B) by nia.
    split; [reflexivity|]. split.
    + assert (cw * B <= v_w v * B) by (apply N.mul_le_mono_r; lia).
      right. cbn. repeat split; try lia.
    + cbn. nia.
Qed.

(* absolute byte range, in the caller's buffer, of row y of a view *)
Definition abs_row (v : view) (y : N) : N * N :=
  (v_off v + y * v_pitch v, v_off v + y * v_pitch v + v_w v * v_bpp v).

(* row y of the crop is bytes [ox*bpp, (ox+cw)*bpp) of row oy+y of the parent *)
Lemma crop_rows v ox oy cw ch y :
  is_empty cw ch = false -> y < ch ->
  let v' := crop_expected v ox oy cw ch in
  abs_row v' y = (fst (abs_row v (oy + y)) + ox * v_bpp v,
                  fst (abs_row v (oy + y)) + (ox + cw) * v_bpp v).
Proof.
  intros Em Hy. unfold crop_expected. rewrite Em. unfold abs_row. cbn.
  f_equal; lia.
Qed.

(* no unchecked intermediate value of crop / rows / is_contiguous exceeds u64 for a well-formed
   view whose data is a real slice *)
Lemma wf_no_overflow v y : wf v -> v_len v <= I64MAX -> v_pitch v < U64 -> y < v_h v ->
  y * v_pitch v + v_w v * v_bpp v < U64 /\ v_pitch v * v_h v < U64.
Proof.
  intros Hwf Hlen Hpi Hy. pose proof (row_in_bounds v y Hwf Hy).
  unfold I64MAX, U64 in *.
  destruct Hwf as [[Hw [Hh _]]|[Hw [Hh [Hb [Hp Hl]]]]]; [lia|].
  split; [lia|].
  replace (v_pitch v * v_h v) with (v_pitch v * (v_h v - 1) + v_pitch v) by nia.
  destruct (N.eq_dec (v_h v) 1) as [E|E].
  - rewrite E. replace (v_pitch v * (1 - 1)) with 0 by lia. lia.
  - assert (v_pitch v <= v_pitch v * (v_h v - 1)) by nia. lia.
Qed.
