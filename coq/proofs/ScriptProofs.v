(* C06 / C07: theorems about the decode scripts of model/DecodeScript.v *)
From DDSV Require Import base.Machine model.Layout model.DecodeScript spec.SpecLayout proofs.LayoutProofs.

Definition is_alloc (e : eff) : bool := match e with EAlloc _ => true | _ => false end.
Definition eff_size (e : eff) : N := match e with EAlloc n | ESkip n | ERead n => n end.

(* ------------------------------------------------------------ interpreter facts *)
Lemma step_stuck st e : s_out st <> OOk -> step st e = st.
Proof. intros H. unfold step. destruct (s_out st); try reflexivity. congruence. Qed.
Lemma run_stuck s : forall st, s_out st <> OOk -> fold_left step s st = st.
Proof. induction s as [|e s IH]; intros st H; cbn [fold_left]; [reflexivity|]. rewrite step_stuck by exact H. apply IH. exact H. Qed.

(* allocations do not touch the reader *)
Lemma step_alloc_reader st e : is_alloc e = true -> s_rd (step st e) = s_rd st.
Proof.
  intros H. destruct e; try discriminate H. unfold step. destruct (s_out st); try reflexivity.
  destruct (s_limit st <? n); reflexivity.
Qed.
Lemma run_allocs_reader s : forall st, forallb is_alloc s = true -> s_rd (fold_left step s st) = s_rd st.
Proof.
  induction s as [|e s IH]; intros st H; cbn [fold_left]; [reflexivity|].
  cbn [forallb] in H. apply andb_prop in H. destruct H as [H1 H2]. rewrite IH by exact H2. apply step_alloc_reader. exact H1.
Qed.
(* reader effects never produce a memory-limit error *)
Lemma step_io_no_mem st e : is_alloc e = false -> s_out st <> OMem -> s_out (step st e) <> OMem.
Proof.
  intros H Hs. destruct e; try discriminate H; unfold step; destruct (s_out st) eqn:E; try congruence.
  - destruct (n =? 0); [rewrite E; discriminate|]. destruct (I64MAX <? n); [discriminate|]. destruct (U64 <=? _); discriminate.
  - destruct (n =? 0); [rewrite E; discriminate|]. destruct (_ || _); discriminate.
Qed.
Lemma run_io_no_mem s : forall st, forallb (fun e => negb (is_alloc e)) s = true -> s_out st <> OMem ->
  s_out (fold_left step s st) <> OMem.
Proof.
  induction s as [|e s IH]; intros st H Hs; cbn [fold_left]; [exact Hs|].
  cbn [forallb] in H. apply andb_prop in H. destruct H as [H1 H2]. apply IH; [exact H2|].
  apply step_io_no_mem; [destruct (is_alloc e); [discriminate|reflexivity]|exact Hs].
Qed.

Definition allocs_first (s : list eff) : Prop :=
  exists a io, s = a ++ io /\ forallb is_alloc a = true /\ forallb (fun e => negb (is_alloc e)) io = true.

Lemma allocs_first_mem_no_move s limit rd : allocs_first s ->
  s_out (run_script s limit rd) = OMem -> s_rd (run_script s limit rd) = rd.
Proof.
  intros [a [io [-> [Ha Hio]]]] Hm. unfold run_script in *. rewrite fold_left_app in *.
  set (st1 := fold_left step a (mkRS OOk limit rd [])) in *.
  assert (Hr : s_rd st1 = rd) by (unfold st1; rewrite run_allocs_reader by exact Ha; reflexivity).
  destruct (s_out st1) eqn:E.
  - exfalso. revert Hm. apply run_io_no_mem; [exact Hio|]. rewrite E. discriminate.
  - rewrite run_stuck by (rewrite E; discriminate). exact Hr.
  - rewrite run_stuck by (rewrite E; discriminate). exact Hr.
  - rewrite run_stuck by (rewrite E; discriminate). exact Hr.
Qed.

(* position accounting: a successful run moves the reader by the sum of its skips and reads,
   and the budget by the sum of its allocations *)
Definition moved_all (s : list eff) : N :=
  fold_right (fun e acc => match e with ESkip n | ERead n => n + acc | _ => acc end) 0 s.
Definition alloc_all (s : list eff) : N :=
  fold_right (fun e acc => match e with EAlloc n => n + acc | _ => acc end) 0 s.

Lemma step_ok_account st e : s_out (step st e) = OOk ->
  s_out st = OOk /\
  r_pos (s_rd (step st e)) = r_pos (s_rd st) + match e with ESkip n | ERead n => n | _ => 0 end /\
  s_limit (step st e) + match e with EAlloc n => n | _ => 0 end = s_limit st /\
  r_len (s_rd (step st e)) = r_len (s_rd st) /\ r_fault (s_rd (step st e)) = r_fault (s_rd st).
Proof.
  unfold step. destruct (s_out st) eqn:E; try (intros H; rewrite E in H; discriminate H).
  destruct e as [n|n|n].
  - destruct (N.ltb_spec (s_limit st) n); cbn; [discriminate|]. intros _. repeat split; lia.
  - destruct (N.eqb_spec n 0) as [->|Hn]; [intros _; repeat split; lia|].
    destruct (I64MAX <? n); [discriminate|]. destruct (U64 <=? _); [discriminate|]. cbn. intros _. repeat split; lia.
  - destruct (N.eqb_spec n 0) as [->|Hn]; [intros _; repeat split; lia|].
    destruct (_ || _); [discriminate|]. cbn. intros _. repeat split; lia.
Qed.
Lemma run_ok_account s : forall st, s_out (fold_left step s st) = OOk ->
  s_out st = OOk /\
  r_pos (s_rd (fold_left step s st)) = r_pos (s_rd st) + moved_all s /\
  s_limit (fold_left step s st) + alloc_all s = s_limit st.
Proof.
  induction s as [|e s IH]; intros st H; cbn [fold_left moved_all alloc_all fold_right] in *.
  - repeat split; try assumption; lia.
  - destruct (IH _ H) as [H1 [H2 H3]]. destruct (step_ok_account st e H1) as [A [B [C _]]].
    split; [exact A|]. destruct e; fold (moved_all s); fold (alloc_all s); lia.
Qed.

(* the budget is never overdrawn, whatever the outcome *)
Lemma step_budget st e : s_limit (step st e) <= s_limit st.
Proof.
  unfold step. destruct (s_out st); try lia. destruct e as [n|n|n].
  - destruct (N.ltb_spec (s_limit st) n); cbn; lia.
  - destruct (n =? 0); [lia|]. destruct (I64MAX <? n); [cbn; lia|]. destruct (U64 <=? _); cbn; lia.
  - destruct (n =? 0); [lia|]. destruct (_ || _); cbn; lia.
Qed.
Lemma alloc_all_cons e t : alloc_all (e :: t) = match e with EAlloc n => n + alloc_all t | _ => alloc_all t end.
Proof. reflexivity. Qed.
Lemma step_trace_budget st e : alloc_all (s_trace (step st e)) + s_limit (step st e) = alloc_all (s_trace st) + s_limit st.
Proof.
  unfold step. destruct (s_out st); try reflexivity. destruct e as [n|n|n].
  - destruct (N.ltb_spec (s_limit st) n); cbn [s_trace s_limit]; [reflexivity|]. rewrite alloc_all_cons. lia.
  - destruct (n =? 0); [reflexivity|]. destruct (I64MAX <? n); [reflexivity|]. destruct (U64 <=? _); cbn [s_trace s_limit]; [reflexivity|].
    rewrite alloc_all_cons. reflexivity.
  - destruct (n =? 0); [reflexivity|]. destruct (_ || _); cbn [s_trace s_limit]; [reflexivity|]. rewrite alloc_all_cons. reflexivity.
Qed.
Lemma run_trace_budget s : forall st,
  alloc_all (s_trace (fold_left step s st)) + s_limit (fold_left step s st) = alloc_all (s_trace st) + s_limit st.
Proof.
  induction s as [|e s IH]; intros st; cbn [fold_left]; [reflexivity|]. rewrite IH. apply step_trace_budget.
Qed.

(* memory-limit verdict of an allocations-first script: refused iff the total need exceeds the limit *)
Lemma step_alloc_eq st n : s_out st = OOk ->
  step st (EAlloc n) = if s_limit st <? n then mkRS OMem (s_limit st) (s_rd st) (s_trace st)
                       else mkRS OOk (s_limit st - n) (s_rd st) (EAlloc n :: s_trace st).
Proof. intros H. unfold step. rewrite H. reflexivity. Qed.
Lemma run_allocs_verdict a : forall st, forallb is_alloc a = true -> s_out st = OOk ->
  (s_out (fold_left step a st) = OMem <-> s_limit st < alloc_all a) /\
  (s_out (fold_left step a st) = OOk <-> alloc_all a <= s_limit st) /\
  (s_out (fold_left step a st) = OOk \/ s_out (fold_left step a st) = OMem).
Proof.
  induction a as [|e a IH]; intros st H Hs; cbn [fold_left].
  - rewrite Hs. unfold alloc_all. cbn [fold_right]. repeat split; try discriminate; try lia; auto.
  - cbn [forallb] in H. apply andb_prop in H. destruct H as [H1 H2]. destruct e as [n|n|n]; try discriminate H1.
    rewrite alloc_all_cons. rewrite step_alloc_eq by exact Hs.
    destruct (N.ltb_spec (s_limit st) n) as [Hl|Hl].
    + rewrite run_stuck by (cbn; discriminate). cbn [s_out]. repeat split; try discriminate; try lia; auto.
    + destruct (IH (mkRS OOk (s_limit st - n) (s_rd st) (EAlloc n :: s_trace st)) H2 eq_refl) as [A [B C]].
      cbn [s_limit] in A, B.
      split; [split; intros X; [apply A in X; lia|apply A; lia]|].
      split; [split; intros X; [apply B in X; lia|apply B; lia]|exact C].
Qed.

(* ------------------------------------------------------------ facts about the scripts themselves *)
Lemma pixel_rows_io n row gap : forallb (fun e => negb (is_alloc e)) (pixel_rows n row gap) = true.
Proof.
  induction n as [|n IH]; [reflexivity|]. destruct n as [|n]; [reflexivity|].
  change (pixel_rows (S (S n)) row gap) with (ERead row :: ESkip gap :: pixel_rows (S n) row gap).
  cbn [forallb is_alloc negb andb]. exact IH.
Qed.
Lemma pixel_rows_moved n row gap : moved_all (pixel_rows (S n) row gap) = N.of_nat (S n) * row + N.of_nat n * gap.
Proof.
  induction n as [|n IH]; [cbn; lia|].
  change (pixel_rows (S (S n)) row gap) with (ERead row :: ESkip gap :: pixel_rows (S n) row gap).
  unfold moved_all in *. cbn [fold_right]. rewrite IH. lia.
Qed.
Lemma pixel_rows_alloc n row gap : alloc_all (pixel_rows n row gap) = 0.
Proof.
  induction n as [|n IH]; [reflexivity|]. destruct n as [|n]; [reflexivity|].
  change (pixel_rows (S (S n)) row gap) with (ERead row :: ESkip gap :: pixel_rows (S n) row gap).
  rewrite !alloc_all_cons. exact IH.
Qed.

Lemma script_full_allocs_first p fast W H : allocs_first (script_full p fast W H).
Proof.
  unfold script_full. destruct (is_empty W H); [exists [], []; auto|].
  destruct p as [enc|bpb bw bh|e1 e2 sx sy].
  - destruct fast; [exists [], [ERead (W * H * enc)]; auto|].
    exists [EAlloc (line_buffer_len (W * enc) H)], [ERead (W * enc * H)]. auto.
  - eexists [_], [_]. split; [reflexivity|]. auto.
  - eexists [_; _], [_; _]. split; [reflexivity|]. auto.
Qed.
Lemma script_rect_allocs_first p W H ox oy w h : allocs_first (script_rect p W H ox oy w h).
Proof.
  unfold script_rect. destruct p as [enc|bpb bw bh|e1 e2 sx sy].
  - eexists [_], _. split; [reflexivity|]. split; [reflexivity|].
    cbn [app forallb is_alloc negb andb]. rewrite forallb_app, pixel_rows_io. reflexivity.
  - eexists [_], [_; _; _]. split; [reflexivity|]. auto.
  - eexists [_; _], [_; _; _; _; _; _]. split; [reflexivity|]. auto.
Qed.
Lemma plan_allocs_first p rq : allocs_first (snd (plan p rq)).
Proof.
  unfold plan. destruct rq as [W H fast|W H ox oy w h].
  - destruct (likely_overflow p W H); [exists [], []; auto|]. apply script_full_allocs_first.
  - destruct (likely_overflow p W H); [exists [], []; auto|].
    destruct (negb _); [exists [], []; auto|]. destruct (is_empty w h).
    + eexists [], [_]. split; [reflexivity|]. auto.
    + apply script_rect_allocs_first.
Qed.

(* bytes moved by a script = the surface's encoded length (the rule of C02) *)
Lemma moved_full p fast W H : wf_pixel_info p -> moved_all (script_full p fast W H) = spec_len p W H.
Proof.
  intros Hp. unfold script_full, is_empty.
  destruct (N.eqb_spec W 0) as [->|HW]; [|destruct (N.eqb_spec H 0) as [->|HH]]; cbn [orb].
  - destruct p as [enc|bpb bw bh|e1 e2 sx sy]; cbn [spec_len moved_all fold_right wf_pixel_info] in *; try lia.
    + unfold div_ceil. replace (0 + bw - 1) with (bw - 1) by lia. rewrite N.div_small by lia. lia.
    + unfold div_ceil. replace (0 + sx - 1) with (sx - 1) by lia. rewrite (N.div_small (sx - 1)) by lia. lia.
  - destruct p as [enc|bpb bw bh|e1 e2 sx sy]; cbn [spec_len moved_all fold_right wf_pixel_info] in *; try lia.
    + unfold div_ceil. replace (0 + bh - 1) with (bh - 1) by lia. rewrite (N.div_small (bh - 1)) by lia. lia.
    + unfold div_ceil. replace (0 + sy - 1) with (sy - 1) by lia. rewrite (N.div_small (sy - 1)) by lia. lia.
  - destruct p as [enc|bpb bw bh|e1 e2 sx sy]; cbn [spec_len].
    + destruct fast; cbn [moved_all fold_right]; lia.
    + cbn [moved_all fold_right]. lia.
    + cbn [moved_all fold_right]. lia.
Qed.

Lemma div_ceil_mono a b c : 0 < c -> a <= b -> div_ceil a c <= div_ceil b c.
Proof. intros Hc H. unfold div_ceil. apply N.div_le_mono; lia. Qed.
Lemma div_floor_le_ceil a b c : 0 < c -> a <= b -> a / c <= div_ceil b c.
Proof.
  intros Hc H. unfold div_ceil. apply N.div_le_mono; lia.
Qed.
Lemma div_floor_lt_ceil a b c : 0 < c -> a < b -> a / c < div_ceil b c \/ a / c = div_ceil b c /\ False.
Proof.
  intros Hc H. left. unfold div_ceil.
  assert (a / c + 1 <= (b + c - 1) / c); [|lia].
  replace (a / c + 1) with ((a + 1 * c) / c) by (rewrite N.div_add by lia; reflexivity).
  apply N.div_le_mono; lia.
Qed.

Lemma moved_rect p W H ox oy w h : wf_pixel_info p -> ox + w <= W -> oy + h <= H -> 1 <= w -> 1 <= h ->
  moved_all (script_rect p W H ox oy w h) = spec_len p W H.
Proof.
  intros Hp Hx Hy Hw Hh. unfold script_rect. destruct p as [enc|bpb bw bh|e1 e2 sx sy]; cbn [spec_len wf_pixel_info] in *.
  - destruct (N.to_nat h) as [|n] eqn:En; [lia|].
    unfold moved_all. cbn [app fold_right]. rewrite fold_right_app. fold (moved_all (pixel_rows (S n) (w * enc) (ox * enc + (W - ox - w) * enc))).
    cbn [fold_right].
    assert (Hfold : forall l a, fold_right (fun e acc => match e with ESkip n | ERead n => n + acc | EAlloc _ => acc end) a l = moved_all l + a).
    { induction l as [|e l IH]; intros a; unfold moved_all in *; cbn [fold_right]; [lia|]. rewrite IH. destruct e; lia. }
    rewrite Hfold. rewrite pixel_rows_moved.
    assert (N.of_nat (S n) = h) by lia. assert (N.of_nat n = h - 1) by lia.
    rewrite H0, H1. clear Hfold H0 H1 En.
    set (r := W - ox - w). assert (HW : W = ox + w + r) by lia. set (t := H - oy - h). assert (HH : H = oy + h + t) by lia.
    set (k := h - 1). assert (Hk : h = k + 1) by lia. clearbody r t k. subst W H h. ring.
  - cbn [moved_all fold_right].
    pose proof (div_floor_lt_ceil oy (h + oy) bh ltac:(lia) ltac:(lia)) as [A|[_ []]].
    pose proof (div_ceil_mono (h + oy) H bh ltac:(lia) ltac:(lia)) as B.
    set (q := div_ceil W bw * bpb). set (a := oy / bh) in *. set (b := div_ceil (h + oy) bh) in *. set (c := div_ceil H bh) in *.
    replace (c - a - (b - a)) with (c - b) by lia.
    replace (q * a + (q * (b - a) + (q * (c - b) + 0))) with (q * c) by nia. unfold q. lia.
  - cbn [moved_all fold_right].
    pose proof (div_floor_lt_ceil oy (oy + h) sy ltac:(lia) ltac:(lia)) as [A|[_ []]].
    pose proof (div_ceil_mono (oy + h) H sy ltac:(lia) ltac:(lia)) as B.
    set (q := div_ceil W sx * e2). set (a := oy / sy) in *. set (b := div_ceil (oy + h) sy) in *. set (c := div_ceil H sy) in *.
    replace (c - a - (c - b)) with (b - a) by lia.
    replace (a * q + (q * (b - a) + ((c - b) * q + 0))) with (q * c) by nia.
    replace (W * e1 * oy + (W * e1 * h + (W * e1 * (H - oy - h) + q * c))) with (W * e1 * (oy + h + (H - oy - h)) + q * c) by lia.
    replace (oy + h + (H - oy - h)) with H by lia. unfold q. lia.
Qed.

(* ------------------------------------------------------------ theorems about whole decode calls *)
Definition rq_size (rq : request) : N * N :=
  match rq with RFull W H _ => (W, H) | RRect W H _ _ _ _ => (W, H) end.

Lemma likely_overflow_false p W H : likely_overflow p W H = false ->
  surface_bytes p W H = Some (spec_len p W H) /\ spec_len p W H <= I64MAX.
Proof.
  unfold likely_overflow. rewrite surface_bytes_spec. destruct (N.ltb_spec (spec_len p W H) U64); [|discriminate].
  destruct (N.ltb_spec I64MAX (spec_len p W H)); [discriminate|]. intros _. split; [reflexivity|assumption].
Qed.

Theorem consumes_exactly p rq limit rd : wf_pixel_info p ->
  s_out (decode_run p rq limit rd) = OOk ->
  r_pos (s_rd (decode_run p rq limit rd)) = r_pos rd + spec_len p (fst (rq_size rq)) (snd (rq_size rq)).
Proof.
  intros Hp. unfold decode_run, plan. destruct rq as [W H fast|W H ox oy w h]; cbn [rq_size fst snd].
  - destruct (likely_overflow p W H) eqn:Eo; [discriminate|]. intros Hok.
    unfold run_script in *. destruct (run_ok_account _ _ Hok) as [_ [Hpos _]]. rewrite Hpos. cbn [s_rd].
    rewrite moved_full by exact Hp. reflexivity.
  - destruct (likely_overflow p W H) eqn:Eo; [discriminate|].
    destruct ((ox + w <=? W) && (oy + h <=? H)) eqn:Ec; cbn [negb]; [|discriminate].
    apply andb_prop in Ec. destruct Ec as [Ex Ey]. apply N.leb_le in Ex, Ey.
    destruct (likely_overflow_false p W H Eo) as [Esb _].
    unfold is_empty. destruct (N.eqb_spec w 0) as [Hw|Hw]; [|destruct (N.eqb_spec h 0) as [Hh|Hh]]; cbn [orb]; intros Hok;
      unfold run_script in *; destruct (run_ok_account _ _ Hok) as [_ [Hpos _]]; rewrite Hpos; cbn [s_rd].
    + rewrite Esb. unfold moved_all. cbn [fold_right]. lia.
    + rewrite Esb. unfold moved_all. cbn [fold_right]. lia.
    + rewrite moved_rect by (try exact Hp; lia). reflexivity.
Qed.

Theorem non_io_error_no_move p rq limit rd :
  s_out (decode_run p rq limit rd) = OMem \/ s_out (decode_run p rq limit rd) = ORectOOB ->
  s_rd (decode_run p rq limit rd) = rd.
Proof.
  unfold decode_run. pose proof (plan_allocs_first p rq) as Haf. destruct (plan p rq) as [o s]. cbn [snd] in Haf.
  destruct o; try (intros _; reflexivity). intros [Hm|Hr].
  - apply allocs_first_mem_no_move; assumption.
  - exfalso. destruct Haf as [a [io [-> [Ha Hio]]]]. unfold run_script in Hr. rewrite fold_left_app in Hr.
    destruct (run_allocs_verdict a (mkRS OOk limit rd []) Ha eq_refl) as [_ [_ C]].
    destruct C as [C|C].
    + revert Hr. generalize dependent (fold_left step a (mkRS OOk limit rd [])). intros st C.
      revert st C. induction io as [|e io IH]; intros st C Hr; cbn [fold_left] in Hr; [congruence|].
      cbn [forallb] in Hio. apply andb_prop in Hio. destruct Hio as [H1 H2].
      destruct (s_out (step st e)) eqn:E.
      * apply (IH H2 _ E Hr).
      * rewrite run_stuck in Hr by (rewrite E; discriminate). congruence.
      * rewrite run_stuck in Hr by (rewrite E; discriminate). congruence.
      * exfalso. revert E. unfold step. rewrite C. destruct e as [n|n|n]; [discriminate H1| |].
        -- destruct (n =? 0); [rewrite C; discriminate|]. destruct (I64MAX <? n); [discriminate|]. destruct (U64 <=? _); discriminate.
        -- destruct (n =? 0); [rewrite C; discriminate|]. destruct (_ || _); discriminate.
    + rewrite run_stuck in Hr by (rewrite C; discriminate). congruence.
Qed.

(* C07: the memory budget *)
Definition need (p : pixel_info) (rq : request) : N := alloc_all (snd (plan p rq)).

Lemma alloc_all_app a b : alloc_all (a ++ b) = alloc_all a + alloc_all b.
Proof. induction a as [|e a IH]; [reflexivity|]. cbn [app]. rewrite !alloc_all_cons, IH. destruct e; lia. Qed.
Lemma alloc_all_io io : forallb (fun e => negb (is_alloc e)) io = true -> alloc_all io = 0.
Proof.
  induction io as [|e io IH]; intros H; [reflexivity|]. cbn [forallb] in H. apply andb_prop in H. destruct H as [H1 H2].
  rewrite alloc_all_cons, IH by exact H2. destruct e; [discriminate H1|reflexivity|reflexivity].
Qed.

Theorem alloc_within_limit p rq limit rd :
  alloc_all (s_trace (decode_run p rq limit rd)) <= limit /\
  alloc_all (s_trace (decode_run p rq limit rd)) + s_limit (decode_run p rq limit rd) = limit.
Proof.
  assert (G : alloc_all (s_trace (decode_run p rq limit rd)) + s_limit (decode_run p rq limit rd) = limit).
  { unfold decode_run. destruct (plan p rq) as [o s]. destruct o; try (cbn; reflexivity).
    unfold run_script. rewrite run_trace_budget. cbn. reflexivity. }
  split; [lia|exact G].
Qed.

Theorem memory_verdict p rq limit rd s : plan p rq = (OOk, s) ->
  (s_out (decode_run p rq limit rd) = OMem <-> limit < need p rq).
Proof.
  intros Hpl. unfold need, decode_run. pose proof (plan_allocs_first p rq) as Haf. rewrite Hpl in *. cbn [snd] in *.
  destruct Haf as [a [io [-> [Ha Hio]]]]. rewrite alloc_all_app, (alloc_all_io io Hio), N.add_0_r.
  unfold run_script. rewrite fold_left_app.
  destruct (run_allocs_verdict a (mkRS OOk limit rd []) Ha eq_refl) as [A [B C]]. cbn [s_limit] in A, B.
  split; intros H.
  - apply A. destruct C as [C|C]; [|exact C]. exfalso. revert H. apply run_io_no_mem; [exact Hio|]. rewrite C. discriminate.
  - apply A in H. rewrite run_stuck by (rewrite H; discriminate). exact H.
Qed.

(* closed form of the need of every request kind *)
Theorem need_closed_form p rq : 
  need p rq =
  match plan p rq with
  | (OOk, _) =>
    match rq with
    | RFull W H fast =>
        if is_empty W H then 0 else
        match p with
        | Fixed enc => if fast then 0 else line_buffer_len (W * enc) H
        | Block bpb bw bh => line_buffer_len (div_ceil W bw * bpb) (div_ceil H bh)
        | BiPlanar e1 e2 sx sy => W * e1 * H + line_buffer_len (div_ceil W sx * e2) (div_ceil H sy)
        end
    | RRect W H ox oy w h =>
        if is_empty w h then 0 else
        match p with
        | Fixed enc => w * enc
        | Block bpb bw bh => line_buffer_len (div_ceil W bw * bpb) (div_ceil (h + oy) bh - oy / bh)
        | BiPlanar e1 e2 sx sy =>
            W * e1 * h + line_buffer_len (div_ceil W sx * e2)
                           (div_ceil H sy - oy / sy - (div_ceil H sy - div_ceil (oy + h) sy))
        end
    end
  | _ => 0
  end.
Proof.
  unfold need, plan. destruct rq as [W H fast|W H ox oy w h].
  - destruct (likely_overflow p W H); [reflexivity|]. cbn [snd]. unfold script_full.
    destruct (is_empty W H); [reflexivity|]. destruct p; [destruct fast|..]; unfold alloc_all; cbn [fold_right]; lia.
  - destruct (likely_overflow p W H); [reflexivity|]. destruct (negb _); [reflexivity|].
    destruct (is_empty w h); [reflexivity|]. cbn [snd]. unfold script_rect. destruct p.
    + cbn [app]. rewrite !alloc_all_cons, alloc_all_app, pixel_rows_alloc. rewrite !alloc_all_cons. unfold alloc_all. cbn [fold_right]. lia.
    + unfold alloc_all; cbn [fold_right]; lia.
    + unfold alloc_all; cbn [fold_right]; lia.
Qed.

(* the line buffer is at least one line and at most max(64 KiB, one line) *)
Lemma line_buffer_bounds bpl height : 1 <= bpl -> 1 <= height ->
  bpl <= line_buffer_len bpl height <= N.max TARGET_BUFFER_SIZE bpl /\ line_buffer_len bpl height <= bpl * height.
Proof.
  intros Hb Hh. unfold line_buffer_len, TARGET_BUFFER_SIZE.
  pose proof (N.div_mod 65536 bpl ltac:(lia)) as E. pose proof (N.mod_lt 65536 bpl ltac:(lia)) as L.
  set (q := 65536 / bpl) in *.
  destruct (N.max_spec q 1) as [[Hq ->]|[Hq ->]]; destruct (N.min_spec 1 height) as [[Hm Em]|[Hm Em]];
    try rewrite Em; destruct (N.min_spec q height) as [[Hn En]|[Hn En]]; try rewrite En; nia.
Qed.
