(* C12: f32 input into the narrow UNORM fields (2, 4, 5, 6, 10 bits): (x.min(1.0) * max + 0.5) as integer, for EVERY
   f32 in [0, 2^40): monotone, and every decision boundary within one ULP of the ideal (k - 1/2) / max. *)
From Coq Require Import ZArith List Bool Lia.
From DDSV Require Import model.Float model.Convert model.Encode spec.SpecNum proofs.RoundInt proofs.FloatMono proofs.QuantProofs.
Import ListNotations.
Local Open Scope Z_scope.

Section Field.
  Variables (max limit n f : Z) (np : positive).
  Hypothesis Hnp : n = Zpos np.
  Hypothesis EF : F max = Ffin false np f.
  Hypothesis Hf : -151 <= f <= 0.
  Hypothesis Hn : Zpos np < 2 ^ 24.
  Hypothesis Hl : 0 <= limit.
  Definition Qf (b : Z) : Z := Encode.q max limit (fmin1 (V b)).
  Definition Tf (k : Z) : Z := find_thr Qf k (ideal_boundary max k).
  Definition table_ok : bool := forallb (fun k => let t := Tf k in
    (Qf (t - 1) =? k - 1) && (Qf t =? k) && (1 <=? t) && (t <? LIM) && (Z.abs (t - ideal_boundary max k) <=? 1)) (map (Z.add 1) (zrange max)).
  Lemma Qf_mono b b' : 0 <= b -> b <= b' -> b' < LIM -> Qf b <= Qf b'.
  Proof.
    intros H0 Hle Hlim. unfold Qf. apply (q_min1_mono max limit (V b) (V b') np f); try assumption.
    - apply of_bits_nwf; lia.
    - apply of_bits_nwf; lia.
    - apply fv_bits_mono; assumption.
  Qed.
  Theorem field_spec : table_ok = true -> forall b k, 0 <= b < LIM -> 1 <= k <= max ->
    (b < Tf k -> Qf b <= k - 1) /\ (Tf k <= b -> k <= Qf b) /\ Z.abs (Tf k - ideal_boundary max k) <= 1.
  Proof.
    intros T b k Hb Hk. unfold table_ok in T. rewrite forallb_forall in T.
    assert (Hin : In k (map (Z.add 1) (zrange max))).
    { apply in_map_iff. exists (k - 1). split; [lia|]. apply zr_aux_In. lia. }
    specialize (T k Hin). cbv zeta in T.
    apply andb_prop in T. destruct T as [T A5]. apply andb_prop in T. destruct T as [T A4]. apply andb_prop in T. destruct T as [T A3].
    apply andb_prop in T. destruct T as [A1 A2]. apply Z.eqb_eq in A1, A2. apply Z.leb_le in A3, A5. apply Z.ltb_lt in A4.
    split; [|split; [|exact A5]].
    - intros Hlt. rewrite <- A1. apply Qf_mono; lia.
    - intros Hge. rewrite <- A2. apply Qf_mono; lia.
  Qed.
End Field.

(* the five narrow UNORM fields of the encoders *)
Theorem n2_from_spec b k : 0 <= b < LIM -> 1 <= k <= 3 ->
  (b < Tf 3 255 k -> n2_from b <= k - 1) /\ (Tf 3 255 k <= b -> k <= n2_from b) /\ Z.abs (Tf 3 255 k - ideal_boundary 3 k) <= 1.
Proof. apply (field_spec 3 255 (-22) 12582912); try reflexivity; try lia. Qed.
Theorem n4_from_spec b k : 0 <= b < LIM -> 1 <= k <= 15 ->
  (b < Tf 15 255 k -> n4_from b <= k - 1) /\ (Tf 15 255 k <= b -> k <= n4_from b) /\ Z.abs (Tf 15 255 k - ideal_boundary 15 k) <= 1.
Proof. apply (field_spec 15 255 (-20) 15728640); try reflexivity; try lia. Qed.
Theorem n5_from_spec b k : 0 <= b < LIM -> 1 <= k <= 31 ->
  (b < Tf 31 255 k -> n5_from b <= k - 1) /\ (Tf 31 255 k <= b -> k <= n5_from b) /\ Z.abs (Tf 31 255 k - ideal_boundary 31 k) <= 1.
Proof. apply (field_spec 31 255 (-19) 16252928); try reflexivity; try lia. Qed.
Theorem n6_from_spec b k : 0 <= b < LIM -> 1 <= k <= 63 ->
  (b < Tf 63 255 k -> n6_from b <= k - 1) /\ (Tf 63 255 k <= b -> k <= n6_from b) /\ Z.abs (Tf 63 255 k - ideal_boundary 63 k) <= 1.
Proof. apply (field_spec 63 255 (-18) 16515072); try reflexivity; try lia. Qed.
Theorem n10_from_spec b k : 0 <= b < LIM -> 1 <= k <= 1023 ->
  (b < Tf 1023 65535 k -> n10_from b <= k - 1) /\ (Tf 1023 65535 k <= b -> k <= n10_from b) /\ Z.abs (Tf 1023 65535 k - ideal_boundary 1023 k) <= 1.
Proof. apply (field_spec 1023 65535 (-14) 16760832); try reflexivity; try lia. Qed.

(* SNORM8: the level (x.min(1.0) * 254 + 0.5) as integer, stored as (level + 1 - 128) mod 256 *)
Theorem s8_level_spec b k : 0 <= b < LIM -> 1 <= k <= 254 ->
  (b < Tf 254 255 k -> Qf 254 255 b <= k - 1) /\ (Tf 254 255 k <= b -> k <= Qf 254 255 b) /\ Z.abs (Tf 254 255 k - ideal_boundary 254 k) <= 1.
Proof. apply (field_spec 254 255 (-16) 16646144); try reflexivity; try lia. Qed.
Lemma s8_from_level b : s8_from b = (Qf 254 255 b + 1 - 128) mod 256.
Proof. reflexivity. Qed.
