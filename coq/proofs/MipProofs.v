(* C16: sizes of a mip chain, and why box / triangle / nearest filtering keeps constant colours, opacity and the
   value range: every output value of such a filter is a weighted mean with non-negative weights. *)
From DDSV Require Import base.Machine model.Layout spec.SpecLayout proofs.LayoutProofs.

(* level l of dimension d is max(1, d >> l); the chain reaches 1 exactly at level log2 d *)
Theorem chain_reaches_one d : 1 <= d -> d < U32 -> mip_dim d (N.log2 d) = 1 /\ forall l, l < N.log2 d -> 2 <= mip_dim d l.
Proof.
  intros H1 HU. split.
  - rewrite mip_dim_spec by exact HU. unfold mip. rewrite N.shiftr_div_pow2.
    destruct (N.log2_spec d ltac:(lia)) as [A B]. rewrite N.pow_succ_r' in B.
    assert (E : d / 2 ^ N.log2 d = 1).
    { symmetry. apply N.div_unique with (r := d - 2 ^ N.log2 d); lia. }
    rewrite E. reflexivity.
  - intros l Hl. rewrite mip_dim_spec by exact HU. unfold mip. rewrite N.shiftr_div_pow2.
    destruct (N.log2_spec d ltac:(lia)) as [A _].
    assert (Hp : 2 * 2 ^ l <= 2 ^ N.log2 d).
    { rewrite <- N.pow_succ_r'. apply N.pow_le_mono_r; lia. }
    assert (2 <= d / 2 ^ l).
    { apply N.div_le_lower_bound; [apply N.pow_nonzero; lia|]. lia. }
    lia.
Qed.

(* weighted sums: xs are sample values, ws non-negative integer weights (any fixed-point scale) *)
Fixpoint wsum (ws xs : list Z) : Z :=
  match ws, xs with w :: ws', x :: xs' => (w * x + wsum ws' xs')%Z | _, _ => 0%Z end.
Fixpoint total (ws : list Z) (n : nat) : Z := match ws, n with w :: ws', S n' => (w + total ws' n')%Z | _, _ => 0%Z end.
Lemma wsum_bounds lo hi : forall ws xs, Forall (fun w => 0 <= w)%Z ws -> Forall (fun x => lo <= x <= hi)%Z xs ->
  (lo * total ws (length xs) <= wsum ws xs <= hi * total ws (length xs))%Z.
Proof.
  induction ws as [|w ws IH]; intros xs Hw Hx; cbn [wsum total]; [lia|].
  destruct xs as [|x xs]; cbn [length total]; [lia|].
  inversion Hw as [|? ? Hw0 Hw']; subst. inversion Hx as [|? ? Hx0 Hx']; subst. specialize (IH xs Hw' Hx'). nia.
Qed.
(* the rounded weighted mean of values in [lo, hi] is in [lo, hi]: the range is preserved exactly *)
Theorem weighted_mean_in_range lo hi ws xs : Forall (fun w => 0 <= w)%Z ws -> Forall (fun x => lo <= x <= hi)%Z xs ->
  (0 < total ws (length xs))%Z ->
  (lo <= (wsum ws xs + total ws (length xs) / 2) / total ws (length xs) <= hi)%Z.
Proof.
  intros Hw Hx HW. pose proof (wsum_bounds lo hi ws xs Hw Hx) as [A B]. set (W := total ws (length xs)) in *. set (S := wsum ws xs) in *.
  assert (H0 : (0 <= W / 2)%Z) by (apply Z.div_pos; lia).
  assert (H1 : (W / 2 * 2 <= W)%Z) by (pose proof (Z.mul_div_le W 2 ltac:(lia)); lia).
  set (Hf := (W / 2)%Z) in *.
  split.
  - apply Z.div_le_lower_bound; [exact HW|]. lia.
  - assert (H2 : (Hf < W)%Z) by (unfold Hf; apply Z.div_lt_upper_bound; lia).
    assert ((S + Hf) / W < hi + 1)%Z by (apply Z.div_lt_upper_bound; [exact HW|]; nia). lia.
Qed.
(* a constant image stays constant, an opaque one opaque: all samples equal c gives exactly c *)
Corollary weighted_mean_constant c ws xs : Forall (fun w => 0 <= w)%Z ws -> Forall (fun x => x = c) xs ->
  (0 < total ws (length xs))%Z -> ((wsum ws xs + total ws (length xs) / 2) / total ws (length xs) = c)%Z.
Proof.
  intros Hw Hx HW. assert (Hr : Forall (fun x => c <= x <= c)%Z xs) by (eapply Forall_impl; [|exact Hx]; cbv beta; intros; lia).
  pose proof (weighted_mean_in_range c c ws xs Hw Hr HW). lia.
Qed.
