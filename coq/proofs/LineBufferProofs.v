(* C05 / C06: UntypedLineBuffer (model/LineBuffer.v) hands out the lines of the encoded region one after the other,
   whatever the buffer size: line i is bytes [pos + i * bpl, pos + (i + 1) * bpl), and after the last line the reader
   stands at pos + height * bpl. *)
From Coq Require Import ZArith List Bool Lia Arith.
From DDSV Require Import model.Crop model.RectPath model.LineBuffer proofs.CropProofs proofs.RectPathProofs.
Import ListNotations.

Section Proofs.
Variables (bpl lib : nat) (data : list Z).
Hypothesis Hbpl : 1 <= bpl.
Hypothesis Hlib : 1 <= lib.

Definition wf (st : lbstate) (a n : nat) : Prop :=
  exists p0 k, lb_buf st = slice p0 (k * bpl) data /\ lb_next st <= k /\ lb_pos st = p0 + k * bpl /\ a = p0 + lb_next st * bpl /\
               n = k - lb_next st + lb_on_disk st /\ lb_pos st + lb_on_disk st * bpl <= length data.

Lemma lb_run_spec : forall fuel st a n, wf st a n -> n < fuel ->
  fst (lb_run bpl lib fuel data st) = map (fun i => slice (a + i * bpl) bpl data) (seq 0 n) /\ lb_pos (snd (lb_run bpl lib fuel data st)) = a + n * bpl.
Proof.
  induction fuel as [|fuel IH]; intros st a n Hwf Hf; [lia|].
  destruct Hwf as (p0 & k & Hbuf & Hj & Hpos & Ha & Hn & Hfit).
  assert (Hlen : length (lb_buf st) = k * bpl) by (rewrite Hbuf, slice_length; nia).
  cbn [lb_run]. unfold lb_next_line. rewrite Hlen.
  destruct (k * bpl <=? lb_next st * bpl) eqn:Eex.
  - apply Nat.leb_le in Eex. assert (lb_next st = k) by nia.
    destruct (lb_on_disk st =? 0) eqn:Ed.
    + apply Nat.eqb_eq in Ed. rewrite Hlen. replace (k * bpl <=? lb_next st * bpl) with true by (symmetry; apply Nat.leb_le; lia).
      cbn [fst snd]. assert (Hn0 : n = 0) by lia. rewrite Hn0. cbn [seq map]. split; [reflexivity|]. lia.
    + apply Nat.eqb_neq in Ed. set (k' := Nat.min lib (lb_on_disk st)). assert (Hk' : 1 <= k') by (unfold k'; lia).
      cbn [lb_buf lb_next lb_on_disk lb_pos].
      assert (Hl2 : length (slice (lb_pos st) (k' * bpl) data) = k' * bpl) by (rewrite slice_length; unfold k' in *; nia).
      rewrite Hl2. replace (k' * bpl <=? 0 * bpl) with false by (symmetry; apply Nat.leb_gt; nia).
      destruct n as [|n']; [lia|].
      specialize (IH (mkLB (slice (lb_pos st) (k' * bpl) data) 1 (lb_on_disk st - k') (lb_pos st + k' * bpl)) (a + bpl) n').
      destruct IH as [I1 I2].
      * exists (lb_pos st), k'. cbn [lb_buf lb_next lb_on_disk lb_pos]. unfold k' in *. repeat split; try lia; try reflexivity; nia.
      * lia.
      * cbn [fst snd]. split.
        -- cbn [seq map]. f_equal; [rewrite slice_of_slice; f_equal; nia|]. rewrite I1. rewrite <- seq_shift, map_map. apply map_ext. intros i. f_equal. lia.
        -- rewrite I2. lia.
  - apply Nat.leb_gt in Eex. assert (Hjk : lb_next st < k) by nia. rewrite Hlen.
    replace (k * bpl <=? lb_next st * bpl) with false by (symmetry; apply Nat.leb_gt; nia).
    destruct n as [|n']; [lia|].
    specialize (IH (mkLB (lb_buf st) (S (lb_next st)) (lb_on_disk st) (lb_pos st)) (a + bpl) n').
    destruct IH as [I1 I2].
    + exists p0, k. cbn [lb_buf lb_next lb_on_disk lb_pos]. repeat split; try lia; try assumption.
    + lia.
    + cbn [fst snd]. split.
      * cbn [seq map]. f_equal; [rewrite Hbuf, slice_of_slice; f_equal; nia|]. rewrite I1. rewrite <- seq_shift, map_map. apply map_ext. intros i. f_equal. lia.
      * rewrite I2. lia.
Qed.

Theorem lb_lines_spec height pos : pos + height * bpl <= length data ->
  lb_lines bpl lib height pos data = (map (fun i => slice (pos + i * bpl) bpl data) (seq 0 height), pos + height * bpl).
Proof.
  intros Hfit. unfold lb_lines.
  destruct (lb_run_spec (S height) (mkLB [] 0 height pos) pos height) as [H1 H2].
  - exists pos, 0. cbn [lb_buf lb_next lb_on_disk lb_pos]. repeat split; try lia; reflexivity.
  - lia.
  - rewrite H1, H2. reflexivity.
Qed.
End Proofs.

(* process_8x1_blocks_helper (R1_UNORM) is general_process_blocks at block size 8 x 1 *)
Lemma gpb_row_8x1_ok (A : Type) (bpb : nat) (dec : list Z -> list A) : 1 <= bpb -> (forall b, length (dec b) = 8 * 1) ->
  rowfn_ok A 8 1 dec (RectPath.gpb_row A 8 dec).
Proof. intros Hb Hd. apply (gpb_row_ok A 8 1 bpb dec); auto; repeat constructor. Qed.
