(* C04 / C12: the float -> 16-bit UNORM conversion (x * 65535 + 0.5) as u16 for EVERY f32 in [0, 2^40): monotone,
   and each of its 65535 decision boundaries is within one ULP of the correctly rounded ideal (k - 1/2) / 65535. *)
From Coq Require Import ZArith List Bool Lia.
From DDSV Require Import model.Float model.Convert model.Encode spec.SpecNum proofs.RoundInt proofs.FloatMono proofs.QuantProofs.
Import ListNotations.
Local Open Scope Z_scope.

Definition T16 (k : Z) : Z := find_thr n16_from k (ideal_boundary 65535 k).
Lemma t_T16 : forallb (fun k => let t := T16 k in
  (n16_from (t - 1) =? k - 1) && (n16_from t =? k) && (1 <=? t) && (t <? LIM) && (Z.abs (t - ideal_boundary 65535 k) <=? 1)) (map (Z.add 1) (zrange 65535)) = true.
Proof. vm_compute. reflexivity. Qed.
Lemma n16_from_mono b b' : 0 <= b -> b <= b' -> b' < LIM -> n16_from b <= n16_from b'.
Proof.
  intros H0 Hle Hl. unfold n16_from.
  apply (q_mono 65535 65535 (V b) (V b') 16776960 (-8)).
  - vm_compute. reflexivity.
  - lia.
  - reflexivity.
  - lia.
  - apply of_bits_nwf; lia.
  - apply of_bits_nwf; lia.
  - apply fv_bits_mono; assumption.
Qed.
Theorem n16_from_spec b k : 0 <= b < LIM -> 1 <= k <= 65535 ->
  (b < T16 k -> n16_from b <= k - 1) /\ (T16 k <= b -> k <= n16_from b) /\ Z.abs (T16 k - ideal_boundary 65535 k) <= 1.
Proof.
  intros Hb Hk. pose proof t_T16 as T. rewrite forallb_forall in T.
  assert (Hin : In k (map (Z.add 1) (zrange 65535))).
  { apply in_map_iff. exists (k - 1). split; [lia|]. apply zr_aux_In. lia. }
  specialize (T k Hin). cbv zeta in T.
  apply andb_prop in T. destruct T as [T A5]. apply andb_prop in T. destruct T as [T A4]. apply andb_prop in T. destruct T as [T A3].
  apply andb_prop in T. destruct T as [A1 A2]. apply Z.eqb_eq in A1, A2. apply Z.leb_le in A3, A5. apply Z.ltb_lt in A4.
  split; [|split; [|exact A5]].
  - intros Hlt. rewrite <- A1. apply n16_from_mono; lia.
  - intros Hge. rewrite <- A2. apply n16_from_mono; lia.
Qed.
