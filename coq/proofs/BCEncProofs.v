(* C13: why the emitted-block conditions make blocks portable, and the cause of finding F13. *)
From DDSV Require Import base.Machine model.Numeric model.BCdec.

(* a BC2/BC3 colour block with colour0 > colour1 decodes identically under a decoder that selects the mode by
   endpoint order (BC1 rule) and one that always uses four colours *)
Theorem mode_independent_when_c0_gt_c1 c0 c1 : c1 < c0 -> bc1_lut true c0 c1 = bc1_lut false c0 c1.
Proof. intros H. unfold bc1_lut. replace (c1 <? c0) with true by (symmetry; apply N.ltb_lt; exact H). rewrite orb_true_r. reflexivity. Qed.

(* decoders that differ in what index 3 of the three-colour mode means (transparent black here, opaque black
   or anything else elsewhere) agree on every block that does not use that index *)
Definition lut3 (c0 c1 : N) (e3 : list N) : list (list N) :=
  [rgb8_of565 c0 ++ [255]; rgb8_of565 c1 ++ [255]; mid_rgb8 c0 c1 ++ [255]; e3].
Lemma three_colour_lut c0 c1 : c0 <= c1 -> bc1_lut true c0 c1 = lut3 c0 c1 [0; 0; 0; 0].
Proof. intros H. unfold bc1_lut, lut3. replace (c1 <? c0) with false by (symmetry; apply N.ltb_ge; exact H). reflexivity. Qed.
Theorem index3_unused_agree c0 c1 e3 e3' (idx : nat -> N) : (forall i, (i < 16)%nat -> idx i < 3) ->
  pixels_of_lut (lut3 c0 c1 e3) [] idx = pixels_of_lut (lut3 c0 c1 e3') [] idx.
Proof.
  intros H. unfold pixels_of_lut. apply map_ext_in. intros i Hi. apply in_seq in Hi. specialize (H i ltac:(lia)).
  unfold lut3. destruct (N.to_nat (idx i)) as [|[|[|n]]] eqn:E; try reflexivity. lia.
Qed.

(* finding F13: for a block made of two colours A and B with equal channel sums, the covariance matrix is a
   multiple of D D^T with D = A - B, and D . (1,1,1) = 0, so the first step of the power iteration from (1,1,1)
   gives the zero vector: (D D^T) (1,1,1) = D (D . (1,1,1)) = 0 *)
Theorem f13_power_iteration_start_is_annihilated (dr dg db : Z) : (dr + dg + db = 0)%Z ->
  (dr * dr * 1 + dr * dg * 1 + dr * db * 1 = 0 /\ dg * dr * 1 + dg * dg * 1 + dg * db * 1 = 0 /\ db * dr * 1 + db * dg * 1 + db * db * 1 = 0)%Z.
Proof. intros H. repeat split; nia. Qed.
