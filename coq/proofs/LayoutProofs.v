From DDSV Require Import base.Machine model.Layout spec.SpecLayout.

(* ------------------------------------------------------------ mip sizes *)
Lemma mip_dim_spec d level : d < U32 -> mip_dim d level = mip d level.
Proof.
  intros Hd. unfold mip_dim, mip.
  destruct (N.leb_spec 31 level) as [Hl|Hl].
  - assert (N.shiftr d level <= 1); [|lia].
    rewrite N.shiftr_div_pow2.
    assert (2 ^ 31 <= 2 ^ level) by (apply N.pow_le_mono_r; lia).
    assert (d / 2 ^ level <= d / 2 ^ 31) by (apply N.div_le_compat_l; split; [reflexivity|exact H]).
    assert (d / 2 ^ 31 < 2); [|lia].
    change (2 ^ 31) with 2147483648. unfold U32 in Hd.
    apply N.div_lt_upper_bound; lia.
  - destruct (N.eqb_spec (N.shiftr d level) 0); lia.
Qed.
Lemma mip_dim_pos d level : 1 <= mip_dim d level.
Proof.
  unfold mip_dim. destruct (31 <=? level); [lia|].
  destruct (N.eqb_spec (N.shiftr d level) 0); lia.
Qed.
Lemma mip_dim_le d level : 1 <= d -> mip_dim d level <= d.
Proof.
  intros Hd. unfold mip_dim. destruct (31 <=? level); [lia|].
  destruct (N.eqb_spec (N.shiftr d level) 0); [lia|].
  rewrite N.shiftr_div_pow2. apply N.div_le_upper_bound.
  - apply N.pow_nonzero. lia.
  - assert (2 ^ level <> 0) by (apply N.pow_nonzero; lia). nia.
Qed.

(* ------------------------------------------------------------ surface_bytes *)
Lemma surface_bytes_spec p w h :
  surface_bytes p w h = if spec_len p w h <? U64 then Some (spec_len p w h) else None.
Proof.
  destruct p as [b|by_ bw bh|b1 b2 sx sy]; cbn [surface_bytes spec_len]; unfold checked_mul64, checked_add64, obind.
  - reflexivity.
  - reflexivity.
  - set (A := w * h * b1). set (B := div_ceil w sx * div_ceil h sy * b2).
    destruct (N.ltb_spec A U64); destruct (N.ltb_spec B U64); destruct (N.ltb_spec (A + B) U64); try reflexivity; lia.
Qed.

Lemma div_ceil_pos a b : 0 < b -> 1 <= a -> 1 <= div_ceil a b.
Proof.
  intros Hb Ha. unfold div_ceil. apply N.div_le_lower_bound; lia.
Qed.
Lemma div_ceil_le a b : 0 < b -> div_ceil a b <= a.
Proof.
  intros Hb. unfold div_ceil. destruct (N.eq_dec a 0) as [->|Ha].
  - rewrite N.div_small; lia.
  - apply N.div_le_upper_bound; [lia|]. nia.
Qed.

Lemma spec_len_pos p w h : wf_pixel_info p -> 1 <= w -> 1 <= h -> 1 <= spec_len p w h.
Proof.
  intros Hp Hw Hh. destruct p as [b|by_ bw bh|b1 b2 sx sy]; cbn [spec_len wf_pixel_info] in *.
  - nia.
  - pose proof (div_ceil_pos w bw ltac:(lia) Hw). pose proof (div_ceil_pos h bh ltac:(lia) Hh). nia.
  - pose proof (div_ceil_pos w sx ltac:(lia) Hw). pose proof (div_ceil_pos h sy ltac:(lia) Hh).
    destruct (N.eq_dec b1 0); nia.
Qed.

(* the unchecked u64 products inside surface_bytes fit for u32 dimensions *)
Lemma surface_bytes_inner_fits p w h : wf_pixel_info p -> w < U32 -> h < U32 ->
  w * h < U64 /\
  match p with
  | Fixed _ => True
  | Block _ bw bh => div_ceil w bw * div_ceil h bh < U64
  | BiPlanar _ _ sx sy => div_ceil w sx * div_ceil h sy < U64
  end.
Proof.
  intros Hp Hw Hh. unfold U32, U64 in *. split; [nia|].
  destruct p as [b|by_ bw bh|b1 b2 sx sy]; cbn [wf_pixel_info] in Hp; [exact I| |].
  - pose proof (div_ceil_le w bw ltac:(lia)). pose proof (div_ceil_le h bh ltac:(lia)). nia.
  - pose proof (div_ceil_le w sx ltac:(lia)). pose proof (div_ceil_le h sy ltac:(lia)). nia.
Qed.

(* ------------------------------------------------------------ texture length *)
Lemma tex_len_from_spec p w h : forall n level acc, acc < U64 ->
  tex_len_from p w h level n acc =
  if acc + sum_lens p w h level n <? U64 then Some (acc + sum_lens p w h level n) else None.
Proof.
  induction n as [|n IH]; intros level acc Hacc; cbn [tex_len_from sum_lens].
  - rewrite N.add_0_r. destruct (N.ltb_spec acc U64) as [H|H]; [reflexivity|lia].
  - rewrite surface_bytes_spec.
    set (m := spec_len p (mip_dim w level) (mip_dim h level)).
    set (r := sum_lens p w h (level + 1) n).
    destruct (N.ltb_spec m U64) as [Hm|Hm]; cbn [obind].
    2:{ destruct (N.ltb_spec (acc + (m + r)) U64); [lia|reflexivity]. }
    unfold checked_add64. destruct (N.ltb_spec (acc + m) U64) as [Ha|Ha]; cbn [obind].
    2:{ destruct (N.ltb_spec (acc + (m + r)) U64); [lia|reflexivity]. }
    rewrite IH by exact Ha. fold r. rewrite N.add_assoc. reflexivity.
Qed.

Lemma get_texture_len_spec w h mips p :
  get_texture_len w h mips p =
  if sum_lens p w h 0 (N.to_nat mips) <? U64 then Some (sum_lens p w h 0 (N.to_nat mips)) else None.
Proof. unfold get_texture_len. rewrite tex_len_from_spec by (unfold U64; lia). reflexivity. Qed.

Lemma vol_len_from_spec p w h d : forall n level acc, acc < U64 ->
  vol_len_from p w h d level n acc =
  if acc + sum_vol p w h d level n <? U64 then Some (acc + sum_vol p w h d level n) else None.
Proof.
  induction n as [|n IH]; intros level acc Hacc; cbn [vol_len_from sum_vol].
  - rewrite N.add_0_r. destruct (N.ltb_spec acc U64) as [H|H]; [reflexivity|lia].
  - rewrite surface_bytes_spec.
    set (sl := spec_len p (mip_dim w level) (mip_dim h level)).
    set (dd := mip_dim d level). pose proof (mip_dim_pos d level) as Hdd. fold dd in Hdd.
    set (r := sum_vol p w h d (level + 1) n).
    destruct (N.ltb_spec sl U64) as [Hm|Hm]; cbn [obind].
    2:{ destruct (N.ltb_spec (acc + (dd * sl + r)) U64); [nia|reflexivity]. }
    unfold checked_mul64. destruct (N.ltb_spec (sl * dd) U64) as [Hq|Hq]; cbn [obind].
    2:{ destruct (N.ltb_spec (acc + (dd * sl + r)) U64); [nia|reflexivity]. }
    unfold checked_add64. destruct (N.ltb_spec (acc + sl * dd) U64) as [Ha|Ha]; cbn [obind].
    2:{ destruct (N.ltb_spec (acc + (dd * sl + r)) U64); [nia|reflexivity]. }
    rewrite IH by exact Ha. fold r. rewrite (N.mul_comm dd sl), N.add_assoc. reflexivity.
Qed.
Lemma get_volume_len_spec w h d mips p :
  get_volume_len w h d mips p =
  if sum_vol p w h d 0 (N.to_nat mips) <? U64 then Some (sum_vol p w h d 0 (N.to_nat mips)) else None.
Proof. unfold get_volume_len. rewrite vol_len_from_spec by (unfold U64; lia). reflexivity. Qed.

(* ------------------------------------------------------------ tiling *)
Lemma tiles_app a l1 b l2 c : tiles a l1 b -> tiles b l2 c -> tiles a (l1 ++ l2) c.
Proof.
  revert a. induction l1 as [|s l1 IH]; intros a H1 H2; cbn [app tiles] in *.
  - subst. exact H2.
  - destruct H1 as [E H1]. split; [exact E|]. apply IH; assumption.
Qed.

Lemma spec_mips_tiles p w h : forall n level off,
  tiles off (spec_mips p w h level n off) (off + sum_lens p w h level n).
Proof.
  induction n as [|n IH]; intros level off; cbn [spec_mips sum_lens tiles].
  - lia.
  - split; [reflexivity|]. cbn [s_len]. rewrite N.add_assoc. apply IH.
Qed.

Lemma spec_slices_tiles w h sl : forall d k off, 
  tiles (off + k * sl) (map (fun k => mkSurf w h (off + k * sl) sl) (nseq d k)) (off + (k + N.of_nat d) * sl).
Proof.
  induction d as [|d IH]; intros k off; cbn [nseq map tiles].
  - f_equal. lia.
  - split; [reflexivity|]. cbn [s_len].
    replace (off + k * sl + sl) with (off + (k + 1) * sl) by lia.
    replace (k + N.of_nat (S d)) with (k + 1 + N.of_nat d) by lia. apply IH.
Qed.

Lemma spec_vol_tiles p w h d : forall n level off,
  tiles off (spec_vol p w h d level n off) (off + sum_vol p w h d level n).
Proof.
  induction n as [|n IH]; intros level off; cbn [spec_vol sum_vol tiles].
  - lia.
  - eapply tiles_app.
    + unfold spec_slices.
      pose proof (spec_slices_tiles (mip_dim w level) (mip_dim h level)
                   (spec_len p (mip_dim w level) (mip_dim h level)) (N.to_nat (mip_dim d level)) 0 off) as T.
      rewrite N.mul_0_l, N.add_0_r in T. rewrite N.add_0_l in T. rewrite N2Nat.id in T. exact T.
    + rewrite N.add_assoc. apply IH.
Qed.

Lemma spec_array_tiles p w h mips : forall count k,
  let tlen := sum_lens p w h 0 (N.to_nat mips) in
  tiles (k * tlen) (flat_map (fun i => spec_mips p w h 0 (N.to_nat mips) (i * tlen)) (nseq count k))
        ((k + N.of_nat count) * tlen).
Proof.
  intros count. induction count as [|c IH]; intros k tlen; cbn [nseq flat_map tiles].
  - f_equal. lia.
  - eapply tiles_app.
    + apply spec_mips_tiles.
    + fold tlen. replace (k * tlen + tlen) with ((k + 1) * tlen) by lia.
      replace (k + N.of_nat (S c)) with (k + 1 + N.of_nat c) by lia. apply IH.
Qed.

Lemma spec_flatten_tiles L : tiles 0 (spec_flatten L) (spec_total L).
Proof.
  destruct L as [t|v|a]; cbn [spec_flatten spec_total].
  - apply (spec_mips_tiles (t_p t) (t_w t) (t_h t) (N.to_nat (t_mips t)) 0 0).
  - apply (spec_vol_tiles (vo_p v) (vo_w v) (vo_h v) (vo_d v) (N.to_nat (vo_mips v)) 0 0).
  - unfold spec_array.
    pose proof (spec_array_tiles (a_p a) (a_w a) (a_h a) (a_mips a) (N.to_nat (a_len a)) 0) as T.
    cbn zeta in T. rewrite N.mul_0_l, N.add_0_l, N2Nat.id in T.
    rewrite (N.mul_comm (sum_lens _ _ _ _ _)). exact T.
Qed.

(* ------------------------------------------------------------ from_header_with = spec *)
Lemma to_short_len_val L s : to_short_len L = Some s -> s = L.
Proof. unfold to_short_len. destruct ((L <? U32) && negb (L =? 0)); congruence. Qed.

Lemma tex_data_len_inv w h m p idx :
  sum_lens p w h 0 (N.to_nat m) < U64 ->
  tex_data_len (mkTex w h m p idx (to_short_len (sum_lens p w h 0 (N.to_nat m)))) = Some (sum_lens p w h 0 (N.to_nat m)).
Proof.
  intros HL. unfold tex_data_len. cbn [t_short t_w t_h t_mips t_p].
  destruct (to_short_len _) as [s|] eqn:E.
  - apply to_short_len_val in E. congruence.
  - rewrite get_texture_len_spec. apply N.ltb_lt in HL. rewrite HL. reflexivity.
Qed.

Lemma surface_info_spec h : surface_info h = spec_dims2 h.
Proof.
  unfold surface_info, spec_dims2, parse_dimension, parse_mipmap_count, lbind.
  destruct (lh_w h =? 0); [reflexivity|]. destruct (lh_h h =? 0); [reflexivity|].
  destruct (255 <? lh_mips h); reflexivity.
Qed.
Lemma volume_info_spec h : volume_info h = spec_dims3 h.
Proof.
  unfold volume_info, spec_dims3, parse_dimension, parse_mipmap_count, lbind.
  destruct (lh_w h =? 0); [reflexivity|]. destruct (lh_h h =? 0); [reflexivity|].
  destruct (lh_depth h) as [d|]; [|reflexivity].
  destruct (d =? 0); [reflexivity|]. destruct (255 <? lh_mips h); reflexivity.
Qed.

Definition finish (sh : shape) (p : pixel_info) : lres layout :=
  if (elem_total sh p <? U64) && (exact_total sh p <? U64) then LOk (layout_of_shape sh p)
  else LErr DataLayoutTooBig.

Lemma tex_create_spec w h m p :
  (let! t := tex_create w h m p in LOk (LTexture t)) = finish (ShTexture w h m) p.
Proof.
  unfold finish, tex_create. cbn [elem_total exact_total layout_of_shape].
  rewrite get_texture_len_spec. rewrite andb_diag.
  destruct (sum_lens p w h 0 (N.to_nat m) <? U64); reflexivity.
Qed.
Lemma vol_create_spec w h d m p :
  (let! v := vol_create w h d m p in LOk (LVolume v)) = finish (ShVolume w h d m) p.
Proof.
  unfold finish, vol_create. cbn [elem_total exact_total layout_of_shape].
  rewrite get_volume_len_spec. rewrite andb_diag.
  destruct (sum_vol p w h d 0 (N.to_nat m) <? U64); reflexivity.
Qed.
Lemma create_array_spec w h m p k n :
  create_array w h m p k n = finish (ShArray k w h m n) p.
Proof.
  unfold finish, create_array, tex_create. cbn [elem_total exact_total layout_of_shape].
  rewrite get_texture_len_spec.
  destruct (N.ltb_spec (sum_lens p w h 0 (N.to_nat m)) U64) as [HL|HL]; cbn [lbind andb]; [|reflexivity].
  unfold arr_new. rewrite tex_data_len_inv by exact HL.
  unfold checked_mul64. cbn [t_w t_h t_mips t_p t_short].
  destruct (sum_lens p w h 0 (N.to_nat m) * n <? U64); reflexivity.
Qed.

Theorem from_header_with_spec h p :
  from_header_with h p =
  match spec_shape h with LErr e => LErr e | LOk sh => finish sh p end.
Proof.
  unfold from_header_with, spec_shape.
  rewrite surface_info_spec, volume_info_spec.
  destruct (lh_dx10 h).
  - destruct (lh_cube10 h).
    + destruct (lh_dim h); try reflexivity.
      destruct (spec_dims2 h) as [[[w hh] m]|e]; cbn [lbind]; [|reflexivity].
      unfold checked_mul32. destruct (lh_array h * 6 <? U32); [|reflexivity].
      apply create_array_spec.
    + destruct (lh_dim h).
      * destruct (spec_dims2 h) as [[[w hh] m]|e]; cbn [lbind]; [|reflexivity].
        destruct (lh_array h =? 1); [apply tex_create_spec|apply create_array_spec].
      * destruct (spec_dims2 h) as [[[w hh] m]|e]; cbn [lbind]; [|reflexivity].
        destruct (lh_array h =? 1); [apply tex_create_spec|apply create_array_spec].
      * destruct (spec_dims3 h) as [[[[w hh] d] m]|e]; cbn [lbind]; [|reflexivity].
        apply vol_create_spec.
  - destruct (has_bits (lh_caps2 h) CAPS2_CUBE_MAP).
    + destruct (has_bits (lh_caps2 h) CAPS2_VOLUME); [reflexivity|].
      destruct (spec_dims2 h) as [[[w hh] m]|e]; cbn [lbind]; [|reflexivity].
      apply create_array_spec.
    + destruct (has_bits (lh_caps2 h) CAPS2_VOLUME).
      * destruct (spec_dims3 h) as [[[[w hh] d] m]|e]; cbn [lbind]; [|reflexivity].
        apply vol_create_spec.
      * destruct (spec_dims2 h) as [[[w hh] m]|e]; cbn [lbind]; [|reflexivity].
        apply tex_create_spec.
Qed.

Lemma spec_shape_pos h sh : spec_shape h = LOk sh -> shape_dims_pos sh.
Proof.
  unfold spec_shape, spec_dims2, spec_dims3.
  destruct (lh_dx10 h); [destruct (lh_cube10 h); destruct (lh_dim h)|
    destruct (has_bits (lh_caps2 h) CAPS2_CUBE_MAP); destruct (has_bits (lh_caps2 h) CAPS2_VOLUME)];
  try discriminate;
  destruct (N.eqb_spec (lh_w h) 0); try discriminate;
  destruct (N.eqb_spec (lh_h h) 0); try discriminate;
  try (destruct (lh_depth h) as [d|]; try discriminate; destruct (N.eqb_spec d 0); try discriminate);
  destruct (255 <? lh_mips h); try discriminate;
  try (destruct (lh_array h * 6 <? U32); try discriminate);
  try (destruct (lh_array h =? 1));
  intros E; injection E as <-; cbn [shape_dims_pos]; lia.
Qed.

(* ------------------------------------------------------------ the iterators enumerate the spec *)
Lemma iter_mips_from_spec p w h : wf_pixel_info p -> forall n level off,
  off + sum_lens p w h level n < U64 ->
  iter_mips_from p w h level n off = Some (spec_mips p w h level n off).
Proof.
  intros Hp. induction n as [|n IH]; intros level off Hfit; cbn [iter_mips_from spec_mips sum_lens] in *.
  - reflexivity.
  - rewrite surface_bytes_spec.
    pose proof (spec_len_pos p _ _ Hp (mip_dim_pos w level) (mip_dim_pos h level)) as Hpos.
    set (m := spec_len p (mip_dim w level) (mip_dim h level)) in *.
    replace (m <? U64) with true by (symmetry; apply N.ltb_lt; lia). cbn [obind].
    unfold surf_new, unchecked_add64, checked_add64.
    replace (m =? 0) with false by (symmetry; apply N.eqb_neq; lia).
    replace (off + m <? U64) with true by (symmetry; apply N.ltb_lt; lia). cbn [obind].
    rewrite IH by lia. reflexivity.
Qed.

Lemma oconcat_flat_map {A B} (f : A -> option (list B)) (g : A -> list B) l :
  (forall x, In x l -> f x = Some (g x)) -> oconcat (map f l) = Some (flat_map g l).
Proof.
  induction l as [|x l IH]; intros H; cbn [map oconcat fold_right flat_map]; [reflexivity|].
  rewrite (H x (or_introl eq_refl)). cbn [obind].
  unfold oconcat in IH. rewrite IH by (intros y Hy; apply H; right; exact Hy). reflexivity.
Qed.

Lemma omap_map {A B} (f : A -> option B) (g : A -> B) l :
  (forall x, In x l -> f x = Some (g x)) -> omap f l = Some (map g l).
Proof.
  induction l as [|x l IH]; intros H; cbn [omap map]; [reflexivity|].
  rewrite (H x (or_introl eq_refl)). cbn [obind].
  rewrite IH by (intros y Hy; apply H; right; exact Hy). reflexivity.
Qed.

Lemma iter_depth_slices_spec w h d off sl :
  off + d * sl < U64 ->
  iter_depth_slices (mkVold w h d off sl) = Some (spec_slices w h d off sl).
Proof.
  intros Hfit. unfold iter_depth_slices, spec_slices. cbn [vd_d].
  apply omap_map. intros k Hk. apply nseq_In in Hk.
  unfold depth_slice, unchecked_mul64, unchecked_add64, checked_mul64, checked_add64. cbn [vd_slice vd_off vd_w vd_h].
  assert (k * sl <= d * sl) by (apply N.mul_le_mono_r; lia).
  replace (k * sl <? U64) with true by (symmetry; apply N.ltb_lt; lia). cbn [obind].
  replace (off + k * sl <? U64) with true by (symmetry; apply N.ltb_lt; lia). reflexivity.
Qed.

Fixpoint spec_volds (p : pixel_info) (w h d level : N) (n : nat) (off : N) : list vold :=
  match n with
  | O => []
  | S n' =>
      let sl := spec_len p (mip_dim w level) (mip_dim h level) in
      mkVold (mip_dim w level) (mip_dim h level) (mip_dim d level) off sl
        :: spec_volds p w h d (level + 1) n' (off + mip_dim d level * sl)
  end.

Lemma vol_iter_from_spec p w h d : wf_pixel_info p -> forall n level off,
  off + sum_vol p w h d level n < U64 ->
  vol_iter_from p w h d level n off = Some (spec_volds p w h d level n off).
Proof.
  intros Hp. induction n as [|n IH]; intros level off Hfit; cbn [vol_iter_from spec_volds sum_vol] in *.
  - reflexivity.
  - rewrite surface_bytes_spec.
    pose proof (spec_len_pos p _ _ Hp (mip_dim_pos w level) (mip_dim_pos h level)) as Hpos.
    pose proof (mip_dim_pos d level) as Hd.
    set (sl := spec_len p (mip_dim w level) (mip_dim h level)) in *.
    set (dd := mip_dim d level) in *.
    assert (sl <= dd * sl) by nia.
    replace (sl <? U64) with true by (symmetry; apply N.ltb_lt; lia). cbn [obind].
    unfold vold_new, unchecked_mul64, unchecked_add64, checked_mul64, checked_add64.
    replace (sl =? 0) with false by (symmetry; apply N.eqb_neq; lia).
    rewrite (N.mul_comm sl dd).
    replace (dd * sl <? U64) with true by (symmetry; apply N.ltb_lt; lia). cbn [obind].
    replace (off + dd * sl <? U64) with true by (symmetry; apply N.ltb_lt; lia). cbn [obind].
    rewrite IH by lia. reflexivity.
Qed.

Lemma volds_flatten p w h d : forall n level off,
  off + sum_vol p w h d level n < U64 ->
  oconcat (map iter_depth_slices (spec_volds p w h d level n off)) = Some (spec_vol p w h d level n off).
Proof.
  induction n as [|n IH]; intros level off Hfit; cbn [spec_volds spec_vol sum_vol map oconcat fold_right] in *.
  - reflexivity.
  - rewrite iter_depth_slices_spec by lia. cbn [obind].
    unfold oconcat in IH. rewrite IH by lia. reflexivity.
Qed.

Definition fits (sh : shape) (p : pixel_info) : Prop := elem_total sh p < U64 /\ exact_total sh p < U64.

Lemma tex_iter_mips_inv w h m p idx : wf_pixel_info p ->
  let L := sum_lens p w h 0 (N.to_nat m) in
  (idx + 1) * L < U64 ->
  tex_iter_mips (mkTex w h m p idx (to_short_len L)) = Some (spec_mips p w h 0 (N.to_nat m) (idx * L)).
Proof.
  intros Hp L Hfit. subst L. unfold tex_iter_mips, tex_data_offset.
  assert (HL : sum_lens p w h 0 (N.to_nat m) < U64) by nia.
  rewrite (tex_data_len_inv w h m p idx HL). cbn [obind t_idx t_p t_w t_h t_mips].
  unfold unchecked_mul64, checked_mul64.
  replace (idx * sum_lens p w h 0 (N.to_nat m) <? U64) with true by (symmetry; apply N.ltb_lt; nia). cbn [obind].
  apply iter_mips_from_spec; [exact Hp|]. nia.
Qed.

Theorem flatten_spec sh p : wf_pixel_info p -> fits sh p ->
  let L := layout_of_shape sh p in
  flatten L = Some (spec_flatten L) /\ layout_data_len L = Some (spec_total L) /\
  spec_total L = exact_total sh p.
Proof.
  intros Hp [He Ht]. destruct sh as [w h m|k w h m n|w h d m];
    cbn [layout_of_shape flatten spec_flatten layout_data_len spec_total elem_total exact_total
         t_p t_w t_h t_mips a_p a_w a_h a_mips a_len vo_p vo_w vo_h vo_d vo_mips] in *.
  - split; [|split; [|reflexivity]].
    + pose proof (tex_iter_mips_inv w h m p 0 Hp) as T. cbn zeta in T.
      rewrite N.mul_0_l in T. apply T. lia.
    + apply tex_data_len_inv. exact He.
  - split; [|split; [|reflexivity]].
    + unfold spec_array, arr_iter.
      cbn [a_p a_w a_h a_mips a_len a_short].
      rewrite map_map. apply oconcat_flat_map. intros i Hi. apply nseq_In in Hi.
      apply tex_iter_mips_inv; [exact Hp|].
      assert ((i + 1) * sum_lens p w h 0 (N.to_nat m) <= n * sum_lens p w h 0 (N.to_nat m)) by (apply N.mul_le_mono_r; lia).
      lia.
    + unfold arr_data_len, arr_first. cbn [a_p a_w a_h a_mips a_len a_short].
      rewrite (tex_data_len_inv w h m p 0 He). cbn [obind].
      unfold unchecked_mul64, checked_mul64.
      replace (sum_lens p w h 0 (N.to_nat m) * n <? U64) with true by (symmetry; apply N.ltb_lt; lia). reflexivity.
  - split; [|split; [|reflexivity]].
    + unfold vol_iter_mips. cbn [vo_p vo_w vo_h vo_d vo_mips].
      rewrite vol_iter_from_spec by (try exact Hp; lia). cbn [obind].
      apply volds_flatten. lia.
    + unfold vol_data_len. cbn [vo_p vo_w vo_h vo_d vo_mips]. rewrite get_volume_len_spec.
      replace (sum_vol p w h d 0 (N.to_nat m) <? U64) with true by (symmetry; apply N.ltb_lt; lia). reflexivity.
Qed.

(* every surface of the enumeration has the size and length the rule prescribes *)
Definition surf_rule (p : pixel_info) (W H : N) (s : surf) : Prop :=
  exists level, s_w s = mip_dim W level /\ s_h s = mip_dim H level /\ s_len s = spec_len p (s_w s) (s_h s).

Lemma spec_mips_rule p w h : forall n level off, Forall (surf_rule p w h) (spec_mips p w h level n off).
Proof.
  induction n as [|n IH]; intros level off; cbn [spec_mips]; constructor; [|apply IH].
  exists level. cbn. auto.
Qed.
Lemma spec_vol_rule p w h d : forall n level off, Forall (surf_rule p w h) (spec_vol p w h d level n off).
Proof.
  induction n as [|n IH]; intros level off; cbn [spec_vol]; [constructor|].
  apply Forall_app. split; [|apply IH].
  unfold spec_slices. apply Forall_forall. intros s Hs. apply in_map_iff in Hs.
  destruct Hs as [k [<- _]]. exists level. cbn. auto.
Qed.
Lemma spec_flatten_rule L :
  let '(p, W, H) := match L with
    | LTexture t => (t_p t, t_w t, t_h t) | LArray a => (a_p a, a_w a, a_h a) | LVolume v => (vo_p v, vo_w v, vo_h v) end in
  Forall (surf_rule p W H) (spec_flatten L).
Proof.
  destruct L as [t|v|a]; cbn [spec_flatten].
  - apply spec_mips_rule.
  - apply spec_vol_rule.
  - unfold spec_array. apply Forall_forall. intros s Hs. apply in_flat_map in Hs.
    destruct Hs as [i [_ Hs]]. revert s Hs. apply Forall_forall. apply spec_mips_rule.
Qed.

(* indexed access agrees with iteration *)
Lemma arr_get_eq_iter a i : i < a_len a ->
  arr_get a i = nth_error (arr_iter a) (N.to_nat i).
Proof.
  intros Hi. unfold arr_get, arr_iter. apply N.ltb_lt in Hi. rewrite Hi. apply N.ltb_lt in Hi.
  rewrite nth_error_map. rewrite nseq_nth_error by lia. cbn [option_map]. repeat f_equal. lia.
Qed.
Lemma arr_get_none a i : a_len a <= i -> arr_get a i = None /\ nth_error (arr_iter a) (N.to_nat i) = None.
Proof.
  intros Hi. unfold arr_get, arr_iter. split.
  - destruct (N.ltb_spec i (a_len a)); [lia|reflexivity].
  - apply nth_error_None. rewrite map_length, nseq_length. lia.
Qed.
Lemma depth_get_eq_iter vd k l : iter_depth_slices vd = Some l ->
  get_depth_slice vd k = Some (nth_error l (N.to_nat k)).
Proof.
  unfold iter_depth_slices, get_depth_slice. intros H.
  assert (G : forall n s l, omap (depth_slice vd) (nseq n s) = Some l ->
     forall j, (j < n)%nat -> depth_slice vd (s + N.of_nat j) = nth_error l j).
  { induction n as [|n IH]; intros s l0 E j Hj; [lia|]. cbn [nseq omap] in E.
    destruct (depth_slice vd s) as [y|] eqn:Ey; [|discriminate]. cbn [obind] in E.
    destruct (omap (depth_slice vd) (nseq n (s + 1))) as [r|] eqn:Er; [|discriminate]. cbn [obind] in E.
    injection E as <-. destruct j as [|j]; cbn [nth_error].
    - rewrite N.add_0_r. exact Ey.
    - replace (s + N.of_nat (S j)) with (s + 1 + N.of_nat j) by lia. apply (IH _ _ Er). lia. }
  assert (Len : forall n s l, omap (depth_slice vd) (nseq n s) = Some l -> length l = n).
  { induction n as [|n IH]; intros s l0 E; cbn [nseq omap] in E; [injection E as <-; reflexivity|].
    destruct (depth_slice vd s) as [y|]; [|discriminate]. cbn [obind] in E.
    destruct (omap (depth_slice vd) (nseq n (s + 1))) as [r|] eqn:Er; [|discriminate]. cbn [obind] in E.
    injection E as <-. cbn [length]. f_equal. eapply IH. exact Er. }
  destruct (N.ltb_spec k (vd_d vd)) as [Hk|Hk].
  - pose proof (G _ _ _ H (N.to_nat k) ltac:(lia)) as E. rewrite N.add_0_l, N2Nat.id in E.
    rewrite E. destruct (nth_error l (N.to_nat k)) eqn:En; [reflexivity|].
    apply nth_error_None in En. rewrite (Len _ _ _ H) in En. lia.
  - f_equal. symmetry. apply nth_error_None. rewrite (Len _ _ _ H). lia.
Qed.

(* ------------------------------------------------------------ summary lemmas *)
Lemma from_header_ok_inv h p L : from_header_with h p = LOk L ->
  exists sh, spec_shape h = LOk sh /\ fits sh p /\ L = layout_of_shape sh p /\ shape_dims_pos sh.
Proof.
  rewrite from_header_with_spec. destruct (spec_shape h) as [sh|e] eqn:E; [|discriminate].
  unfold finish. destruct (N.ltb_spec (elem_total sh p) U64); destruct (N.ltb_spec (exact_total sh p) U64);
    cbn [andb]; try discriminate.
  intros H'. injection H' as <-. exists sh. repeat split; try assumption. eapply spec_shape_pos; eassumption.
Qed.

Lemma layout_tiling h p L : wf_pixel_info p -> from_header_with h p = LOk L ->
  flatten L = Some (spec_flatten L) /\
  tiles 0 (spec_flatten L) (spec_total L) /\
  layout_data_len L = Some (spec_total L) /\ spec_total L < U64.
Proof.
  intros Hp H. destruct (from_header_ok_inv h p L H) as [sh [Hs [Hf [-> Hpos]]]].
  destruct (flatten_spec sh p Hp Hf) as [A [B C]].
  split; [exact A|]. split; [apply spec_flatten_tiles|]. split; [exact B|].
  rewrite C. apply Hf.
Qed.

Lemma layout_reject_iff h p sh : spec_shape h = LOk sh ->
  (from_header_with h p = LErr DataLayoutTooBig <-> (U64 <= elem_total sh p \/ U64 <= exact_total sh p)).
Proof.
  intros Hs. rewrite from_header_with_spec, Hs. unfold finish.
  destruct (N.ltb_spec (elem_total sh p) U64); destruct (N.ltb_spec (exact_total sh p) U64); cbn [andb];
    split; intros H'; try discriminate; try reflexivity; try lia.
Qed.
