(* C03, BC7: the implementation-shaped decoder equals the specification-shaped one. *)
From DDSV Require Import base.Machine model.Numeric model.BCdec model.BC7 gen.GenBC spec.SpecBC spec.SpecBC7Tables proofs.BCProofs.

(* ---- bit facts *)
Lemma land_disjoint q r n : r < 2 ^ n -> N.land (q * 2 ^ n) r = 0.
Proof.
  intros H. apply N.bits_inj. intros m. rewrite N.land_spec, N.bits_0.
  destruct (N.lt_ge_cases m n) as [L|L].
  - rewrite N.mul_pow2_bits_low by exact L. reflexivity.
  - replace r with (r mod 2 ^ n) by (apply N.mod_small; exact H). rewrite N.mod_pow2_bits_high by exact L. apply andb_false_r.
Qed.
Lemma lor_disjoint q r n : r < 2 ^ n -> N.lor (q * 2 ^ n) r = q * 2 ^ n + r.
Proof.
  intros H. rewrite <- N.lxor_lor by (apply land_disjoint; exact H). symmetry. apply N.add_nocarry_lxor.
  apply land_disjoint; exact H.
Qed.

(* ---- weights: the regenerated x4 tables are four times the specification's weights *)
Theorem weights_tie bits : weights_x4 bits = map (N.mul 4) (spec_weights bits).
Proof. unfold weights_x4, spec_weights. destruct (bits =? 2); [reflexivity|]. destruct (bits =? 3); reflexivity. Qed.
Lemma nth_map0 (f : N -> N) l i : f 0 = 0 -> nth i (map f l) 0 = f (nth i l 0).
Proof. intros F. revert i. induction l as [|x l IH]; intros [|i]; cbn [map nth]; try (symmetry; exact F); try reflexivity. apply IH. Qed.
Lemma spec_weight_le bits i : nth i (spec_weights bits) 0 <= 64.
Proof.
  unfold spec_weights. destruct (bits =? 2); [|destruct (bits =? 3)].
  - do 5 (destruct i as [|i]; [cbn [nth]; lia|]). cbn [nth]. lia.
  - do 9 (destruct i as [|i]; [cbn [nth]; lia|]). cbn [nth]. lia.
  - do 17 (destruct i as [|i]; [cbn [nth]; lia|]). cbn [nth]. lia.
Qed.
Theorem interp_eq bits e0 e1 idx : impl_interp bits e0 e1 idx = spec_interp bits e0 e1 idx.
Proof.
  unfold impl_interp, spec_interp. rewrite weights_tie, nth_map0 by reflexivity.
  pose proof (spec_weight_le bits (N.to_nat idx)) as Hw. set (w := nth (N.to_nat idx) (spec_weights bits) 0) in *.
  replace ((256 - 4 * w) * e0 + 4 * w * e1 + 128) with (4 * ((64 - w) * e0 + w * e1 + 32)) by lia.
  replace 256 with (4 * 64) by reflexivity. rewrite N.div_mul_cancel_l by lia. reflexivity.
Qed.
(* the implementation computes in u16: no intermediate wraps for byte endpoints *)
Theorem interp_no_wrap bits e0 e1 idx : e0 < 256 -> e1 < 256 ->
  let w := nth (N.to_nat idx) (weights_x4 bits) 0 in w <= 256 /\ (256 - w) * e0 + w * e1 + 128 < 65536.
Proof.
  intros H0 H1. cbv zeta. rewrite weights_tie, nth_map0 by reflexivity.
  pose proof (spec_weight_le bits (N.to_nat idx)) as Hw. set (w := nth (N.to_nat idx) (spec_weights bits) 0) in *.
  split; [lia|]. nia.
Qed.
(* the specification's interpolation is the exact weighted average rounded to nearest, and stays a byte *)
Theorem interp_nearest bits e0 e1 idx :
  let w := nth (N.to_nat idx) (spec_weights bits) 0 in nearest (spec_interp bits e0 e1 idx) ((64 - w) * e0 + w * e1) 64.
Proof.
  cbv zeta. unfold spec_interp. set (w := nth _ _ _). set (num := (64 - w) * e0 + w * e1).
  replace (num + 32) with (num + 64 / 2) by reflexivity. apply nearest_div_round. lia.
Qed.
Theorem interp_byte bits e0 e1 idx : e0 < 256 -> e1 < 256 -> spec_interp bits e0 e1 idx < 256.
Proof.
  intros H0 H1. unfold spec_interp. pose proof (spec_weight_le bits (N.to_nat idx)) as Hw.
  set (w := nth (N.to_nat idx) (spec_weights bits) 0) in *. apply N.div_lt_upper_bound; [lia|]. nia.
Qed.

(* ---- endpoint expansion: promote equals bit replication on every value of every width used *)
Lemma t_promote : forallb (fun b => forallb (fun x => promote x b =? spec_expand x b) (range (N.to_nat (2 ^ b)))) [4; 5; 6; 7; 8] = true.
Proof. vm_compute. reflexivity. Qed.
Theorem promote_eq b x : In b [4; 5; 6; 7; 8] -> x < 2 ^ b -> promote x b = spec_expand x b.
Proof.
  intros Hb Hx. pose proof t_promote as H. rewrite forallb_forall in H. specialize (H b Hb). cbv beta in H.
  apply N.eqb_eq. exact (sweep _ _ H x Hx).
Qed.
(* bit replication (the BC7 specification's endpoint expansion; it is NOT always the nearest 8-bit value to
   x / (2^b - 1), e.g. 5-bit 3 -> 24 while 3 * 255 / 31 = 24.68) maps the extreme codes to 0 and 255 and is monotone *)
Lemma t_expand_ends : forallb (fun b => (spec_expand 0 b =? 0) && (spec_expand (2 ^ b - 1) b =? 255) &&
  forallb (fun x => spec_expand x b <=? spec_expand (x + 1) b) (range (N.to_nat (2 ^ b - 1)))) [4; 5; 6; 7; 8] = true.
Proof. vm_compute. reflexivity. Qed.

(* ---- reserved mode *)
Lemma tz_le f x : tz f x <= N.of_nat f.
Proof. revert x. induction f as [|f IH]; intros x; cbn [tz]; [lia|]. destruct (x mod 2 =? 1); [lia|]. specialize (IH (x / 2)). lia. Qed.
Theorem reserved_mode_zero P2 P3 expand indices interp b : le128 b mod 256 = 0 ->
  bc7_decode P2 P3 expand indices interp b = repeat [0; 0; 0; 0] 16.
Proof. intros H. unfold bc7_decode. rewrite H. reflexivity. Qed.
Theorem mode_is_unary_prefix b : le128 b mod 256 <> 0 -> tz 8 (le128 b mod 256) < 8.
Proof.
  intros H. assert (Hr : le128 b mod 256 < 256) by (apply N.mod_lt; lia). set (x := le128 b mod 256) in *.
  assert (T : forallb (fun x => (x =? 0) || (tz 8 x <? 8)) (range 256) = true) by (vm_compute; reflexivity).
  pose proof (sweep _ 256 T x Hr) as Hx. cbv beta in Hx. apply orb_prop in Hx. destruct Hx as [Hx|Hx]; [apply N.eqb_eq in Hx; contradiction|].
  apply N.ltb_lt. exact Hx.
Qed.

(* ---- fields read from the stream are in range *)
Lemma take_lt n s : fst (take n s) < 2 ^ n.
Proof. unfold take. cbn [fst]. apply N.mod_lt. apply N.pow_nonzero. lia. Qed.
Lemma take_k_nth k n s i : nth i (fst (take_k k n s)) 0 < 2 ^ n.
Proof.
  revert s i. induction k as [|k IH]; intros s i; cbn [take_k fst].
  - destruct i; cbn [nth]; apply N.neq_0_lt_0, N.pow_nonzero; lia.
  - destruct i as [|i]; cbn [nth]; [apply take_lt|apply IH].
Qed.
Lemma with_p_lt v p n : v < 2 ^ n -> p < 2 -> with_p v p < 2 ^ (n + 1).
Proof.
  intros Hv Hp. unfold with_p. replace (v * 2) with (v * 2 ^ 1) by (rewrite N.pow_1_r; reflexivity).
  rewrite lor_disjoint by (rewrite N.pow_1_r; exact Hp). rewrite N.pow_add_r, N.pow_1_r. lia.
Qed.

(* ---- the skeleton only depends on the helpers through the calls it makes *)
(* ---- the tables the implementation uses now are the specification's *)
Theorem tables_tie : partition2 = spec_partition2 /\ partition3 = spec_partition3.
Proof. split; reflexivity. Qed.
(* structure of the specification's tables: 64 rows of 16 subset indices; pixel 0 is in subset 0; every subset
   is used; the anchors after pixel 0 lie one in each further subset; rows are pairwise distinct *)
Fixpoint distinct_rows (l : list (list N)) : bool :=
  match l with [] => true | x :: l' => negb (existsb (fun y => forallb (fun p => fst p =? snd p) (combine x y)) l') && distinct_rows l' end.
Theorem tables_structure :
  (length spec_partition2 = 64 /\ length spec_partition3 = 64)%nat /\
  forallb (fun r => (N.of_nat (length (fst r)) =? 16) && (nth 0 (fst r) 9 =? 0) && forallb (fun x => x <? 2) (fst r) && existsb (N.eqb 1) (fst r) &&
                    match snd r with [a] => nth (N.to_nat a) (fst r) 9 =? 1 | _ => false end) spec_partition2 = true /\
  forallb (fun r => (N.of_nat (length (fst r)) =? 16) && (nth 0 (fst r) 9 =? 0) && forallb (fun x => x <? 3) (fst r) &&
                    existsb (N.eqb 1) (fst r) && existsb (N.eqb 2) (fst r) &&
                    match snd r with [a; b] => let sa := nth (N.to_nat a) (fst r) 9 in let sb := nth (N.to_nat b) (fst r) 9 in
                                               ((sa =? 1) && (sb =? 2)) || ((sa =? 2) && (sb =? 1)) | _ => false end) spec_partition3 = true /\
  distinct_rows (map fst spec_partition2) = true /\ distinct_rows (map fst spec_partition3) = true.
Proof. vm_compute. repeat split; reflexivity. Qed.

Definition all_anchor_lists : list (list N) := [0] :: map (fun r => 0 :: snd r) (spec_partition2 ++ spec_partition3).
Lemma partition_row_anchor ns pid : In (0 :: snd (partition_row spec_partition2 spec_partition3 ns pid)) all_anchor_lists.
Proof.
  unfold all_anchor_lists, partition_row.
  destruct ns as [|[|[|[|ns]]]]; try (left; reflexivity).
  - destruct (nth_in_or_default (N.to_nat pid) spec_partition2 ([], [])) as [H|H].
    + right. apply in_map_iff. eexists. split; [reflexivity|]. apply in_or_app. left. exact H.
    + rewrite H. left. reflexivity.
  - destruct (nth_in_or_default (N.to_nat pid) spec_partition3 ([], [])) as [H|H].
    + right. apply in_map_iff. eexists. split; [reflexivity|]. apply in_or_app. right. exact H.
    + rewrite H. left. reflexivity.
Qed.

Definition mode_bits_ok (m : b7mode) : Prop :=
  let has_p := m_epb m || m_spb m in
  In (if has_p then m_cb m + 1 else m_cb m) [4; 5; 6; 7; 8] /\
  (m_ab m = 0 \/ In (if has_p then m_ab m + 1 else m_ab m) [4; 5; 6; 7; 8]) /\
  In (m_ib m) [2; 3; 4] /\ (m_ib2 m = 0 \/ In (m_ib2 m) [2; 3; 4]).
Lemma modes_bits_ok m : In m b7modes -> mode_bits_ok m.
Proof.
  intros H. unfold b7modes in H. repeat (destruct H as [<-|H]; [unfold mode_bits_ok; cbn; intuition lia|]). destruct H.
Qed.

Section Congruence.
  Variables (e1 e2 : N -> N -> N) (i1 i2 : N -> list N -> N -> list N * N) (p1 p2 : N -> N -> N -> N -> N).
  Hypothesis He : forall b x, In b [4; 5; 6; 7; 8] -> x < 2 ^ b -> e1 x b = e2 x b.
  Hypothesis Hi : forall b A s, In b [2; 3; 4] -> In A all_anchor_lists -> i1 b A s = i2 b A s.
  Hypothesis Hp : forall b x y i, p1 b x y i = p2 b x y i.

  Lemma pbit_lt k s i : nth i (fst (take_k k 1 s)) 0 < 2.
  Proof. pose proof (take_k_nth k 1 s i) as H. rewrite N.pow_1_r in H. exact H. Qed.

  Lemma decode_mode_congr m s : mode_bits_ok m -> decode_mode spec_partition2 spec_partition3 e1 i1 p1 m s = decode_mode spec_partition2 spec_partition3 e2 i2 p2 m s.
  Proof.
    intros (Hc & Ha & Hib & Hib2). unfold decode_mode. cbv zeta.
    set (s3 := snd (take (m_isb m) (snd (take (m_rb m) (snd (take (m_pb m) s)))))).
    set (r := take_k (2 * m_ns m) (m_cb m) s3). set (g := take_k (2 * m_ns m) (m_cb m) (snd r)).
    set (b := take_k (2 * m_ns m) (m_cb m) (snd g)).
    set (a := if m_ab m =? 0 then (repeat 255 (2 * m_ns m), snd b) else take_k (2 * m_ns m) (m_ab m) (snd b)).
    set (ps := take_k (if m_epb m then (2 * m_ns m)%nat else if m_spb m then m_ns m else 0%nat) 1 (snd a)).
    set (prow := partition_row spec_partition2 spec_partition3 (m_ns m) (fst (take (m_pb m) s))).
    rewrite (Hi (m_ib m) (0 :: snd prow) (snd ps) Hib (partition_row_anchor _ _)).
    set (x1 := i2 (m_ib m) (0 :: snd prow) (snd ps)).
    assert (Hx2 : (if m_ib2 m =? 0 then (fst x1, snd x1) else i1 (m_ib2 m) [0] (snd x1)) =
                  (if m_ib2 m =? 0 then (fst x1, snd x1) else i2 (m_ib2 m) [0] (snd x1))).
    { destruct (N.eqb_spec (m_ib2 m) 0) as [E|E]; [reflexivity|]. destruct Hib2 as [Hz|Hin]; [contradiction|].
      apply Hi; [exact Hin|left; reflexivity]. }
    rewrite Hx2. set (x2 := if m_ib2 m =? 0 then _ else _).
    apply map_ext. intros p.
    (* channel expansion agrees on every raw field *)
    assert (Hchan : forall (raw : list N * N) (bits0 : N) (i : nat),
      (raw = r \/ raw = g \/ raw = b) ->
      e1 (if m_epb m || m_spb m then with_p (nth i (fst raw) 0) (if m_epb m then nth i (fst ps) 0 else nth (i / 2) (fst ps) 0) else nth i (fst raw) 0)
         (if m_epb m || m_spb m then m_cb m + 1 else m_cb m) =
      e2 (if m_epb m || m_spb m then with_p (nth i (fst raw) 0) (if m_epb m then nth i (fst ps) 0 else nth (i / 2) (fst ps) 0) else nth i (fst raw) 0)
         (if m_epb m || m_spb m then m_cb m + 1 else m_cb m)).
    { intros raw _ i Hraw. apply He; [exact Hc|].
      assert (Hr : nth i (fst raw) 0 < 2 ^ m_cb m) by (destruct Hraw as [->|[->| ->]]; apply take_k_nth).
      destruct (m_epb m || m_spb m); [|exact Hr]. apply with_p_lt; [exact Hr|].
      destruct (m_epb m); apply pbit_lt. }
    assert (Hal : forall i, m_ab m <> 0 ->
      e1 (if m_epb m || m_spb m then with_p (nth i (fst a) 0) (if m_epb m then nth i (fst ps) 0 else nth (i / 2) (fst ps) 0) else nth i (fst a) 0)
         (if m_epb m || m_spb m then m_ab m + 1 else m_ab m) =
      e2 (if m_epb m || m_spb m then with_p (nth i (fst a) 0) (if m_epb m then nth i (fst ps) 0 else nth (i / 2) (fst ps) 0) else nth i (fst a) 0)
         (if m_epb m || m_spb m then m_ab m + 1 else m_ab m)).
    { intros i Hne. destruct Ha as [Hz|Ha]; [contradiction|]. apply He; [exact Ha|].
      assert (Hr : nth i (fst a) 0 < 2 ^ m_ab m).
      { unfold a. destruct (N.eqb_spec (m_ab m) 0) as [E|E]; [contradiction|]. apply take_k_nth. }
      destruct (m_epb m || m_spb m); [|exact Hr]. apply with_p_lt; [exact Hr|]. destruct (m_epb m); apply pbit_lt. }
    rewrite !(Hchan r 0 _ (or_introl eq_refl)), !(Hchan g 0 _ (or_intror (or_introl eq_refl))), !(Hchan b 0 _ (or_intror (or_intror eq_refl))).
    destruct (N.eqb_spec (m_ab m) 0) as [Ez|Ez].
    - rewrite !Hp. reflexivity.
    - rewrite !(Hal _ Ez), !Hp. reflexivity.
  Qed.

  Theorem bc7_decode_congr blk : bc7_decode spec_partition2 spec_partition3 e1 i1 p1 blk = bc7_decode spec_partition2 spec_partition3 e2 i2 p2 blk.
  Proof.
    unfold bc7_decode. destruct (nth_error b7modes _) as [m|] eqn:E; [|reflexivity].
    apply decode_mode_congr. apply modes_bits_ok. eapply nth_error_In. exact E.
  Qed.
End Congruence.

(* the block-level statement, given that the index extraction agrees (discharged below) *)
Theorem bc7_model_eq_spec_if_indices :
  (forall b A s, In b [2; 3; 4] -> In A all_anchor_lists -> impl_indices b A s = spec_indices b A s) ->
  forall blk, bc7_model blk = bc7_spec blk.
Proof.
  intros Hidx blk. unfold bc7_model, bc7_spec. destruct tables_tie as [-> ->]. apply bc7_decode_congr.
  - intros b x Hb Hx. apply promote_eq; assumption.
  - exact Hidx.
  - intros. apply interp_eq.
Qed.

(* ---- index extraction: Indexes::decompress_single_index + get_index equals reading the indices one by one,
   the anchor indices one bit narrower *)
Definition Fins (b c : N) : N := c mod 2 ^ (b - 1) + 2 ^ b * (c / 2 ^ (b - 1)).
Definition closed (b c a : N) : N := c mod 2 ^ (a * b) + 2 ^ (a * b) * Fins b (c / 2 ^ (a * b)).

Lemma pow2_pos n : 0 < 2 ^ n. Proof. apply N.neq_0_lt_0, N.pow_nonzero. lia. Qed.
Lemma pow2_split b : 1 <= b -> 2 ^ b = 2 ^ (b - 1) * 2.
Proof. intros H. replace b with ((b - 1) + 1) at 1 by lia. rewrite N.pow_add_r, N.pow_1_r. reflexivity. Qed.
Lemma Fins_le b c : 1 <= b -> Fins b c <= 2 * c.
Proof.
  intros Hb. unfold Fins. rewrite (pow2_split b Hb). pose proof (pow2_pos (b - 1)) as Hp. set (P := 2 ^ (b - 1)) in *.
  pose proof (N.div_mod c P ltac:(lia)) as E. set (q := c / P) in *. set (r := c mod P) in *. nia.
Qed.
Lemma closed_le b c a : 1 <= b -> closed b c a <= 2 * c.
Proof.
  intros Hb. unfold closed. pose proof (pow2_pos (a * b)) as Hp. set (P := 2 ^ (a * b)) in *.
  pose proof (N.div_mod c P ltac:(lia)) as E. pose proof (Fins_le b (c / P) Hb) as HF.
  set (q := c / P) in *. set (r := c mod P) in *. set (f := Fins b q) in *. nia.
Qed.

Lemma decompress1_closed b c a : 1 <= b -> c < 2 ^ 63 -> decompress1 b c a = closed b c a.
Proof.
  intros Hb Hc. unfold decompress1, closed. cbv zeta.
  (* keep the 64-bit modulus abstract: M = 2 * H, c < H *)
  set (M := 2 ^ 64). set (H := 2 ^ 63) in Hc. assert (H64 : M = H * 2) by reflexivity. clearbody M H.
  pose proof (pow2_pos (a * b)) as Hk. set (K := 2 ^ (a * b)) in *.
  pose proof (N.div_mod c K ltac:(lia)) as Ec. pose proof (N.mod_lt c K ltac:(lia)) as Hkeep.
  set (rest := c / K) in *. set (keep := c mod K) in *.
  assert (Hrest : rest < H) by nia.
  rewrite (N.mod_small (rest * 2)) by (rewrite H64; lia).
  replace (2 ^ b - 1) with (N.ones b) by (rewrite N.ones_equiv, N.pred_sub; reflexivity).
  rewrite N.land_ones.
  pose proof (pow2_pos (b - 1)) as Hp. pose proof (pow2_split b Hb) as Eb. set (P := 2 ^ (b - 1)) in *.
  assert (Efirst : (rest * 2) mod 2 ^ b = (rest mod P) * 2) by (rewrite Eb; apply N.mul_mod_distr_r; lia).
  assert (Ehigh : (rest * 2) / 2 ^ b = rest / P) by (rewrite Eb; apply N.div_mul_cancel_r; lia).
  pose proof (N.div_mod (rest * 2) (2 ^ b) ltac:(lia)) as E1. rewrite Efirst, Ehigh in E1.
  pose proof (N.mod_lt rest P ltac:(lia)) as Hlow.
  rewrite Efirst.
  assert (Esub : rest * 2 - rest mod P * 2 = (rest / P) * 2 ^ b).
  { clear - E1. set (q := rest / P) in *. set (r := rest mod P) in *. set (B := 2 ^ b) in *. lia. }
  rewrite Esub. rewrite N.div_mul by lia.
  rewrite (lor_disjoint (rest / P) (rest mod P) b) by (rewrite Eb; lia).
  assert (EF : rest / P * 2 ^ b + rest mod P = Fins b rest) by (unfold Fins; fold P; lia).
  rewrite EF. pose proof (Fins_le b rest Hb) as HF.
  assert (Hsmall : Fins b rest * K < M).
  { rewrite H64. clear - HF Ec Hc Hk Hkeep. set (f := Fins b rest) in *. nia. }
  rewrite (N.mod_small _ _ Hsmall).
  replace (N.lor (Fins b rest * K) keep) with (Fins b rest * K + keep) by (symmetry; apply (lor_disjoint (Fins b rest) keep (a * b)); exact Hkeep). lia.
Qed.

Definition D (b : N) (A : list N) (c : N) : N := fold_left (closed b) A c.
Lemma fold_dec b A : 1 <= b -> forall c m, c < 2 ^ m -> m + N.of_nat (length A) <= 64 ->
  fold_left (decompress1 b) A c = D b A c.
Proof.
  intros Hb. unfold D. induction A as [|a A IH]; intros c m Hc Hm; cbn [fold_left]; [reflexivity|].
  cbn [length] in Hm.
  assert (Hc63 : c < 2 ^ 63).
  { eapply N.lt_le_trans; [exact Hc|]. apply N.pow_le_mono_r; lia. }
  rewrite decompress1_closed by assumption.
  apply (IH _ (m + 1)); [|lia]. rewrite N.pow_add_r, N.pow_1_r. pose proof (closed_le b c a Hb). lia.
Qed.

Lemma closed_S b c a m : m < 2 ^ b -> closed b (m + 2 ^ b * c) (a + 1) = m + 2 ^ b * closed b c a.
Proof.
  intros Hm. unfold closed. replace ((a + 1) * b) with (b + a * b) by lia. rewrite N.pow_add_r.
  pose proof (pow2_pos b) as Hb. pose proof (pow2_pos (a * b)) as Hk. set (B := 2 ^ b) in *. set (K := 2 ^ (a * b)) in *.
  assert (Ed : (m + B * c) / (B * K) = c / K).
  { rewrite <- N.div_div by lia. replace (m + B * c) with (c * B + m) by lia. rewrite N.div_add_l by lia.
    rewrite (N.div_small m B Hm), N.add_0_r. reflexivity. }
  assert (Em : (m + B * c) mod (B * K) = m + B * (c mod K)).
  { rewrite N.mod_mul_r by lia. replace (m + B * c) with (m + c * B) by lia. rewrite N.mod_add by lia.
    rewrite (N.mod_small m B Hm). rewrite N.div_add by lia. rewrite (N.div_small m B Hm). reflexivity. }
  rewrite Ed, Em. lia.
Qed.
Lemma D_shift b A : forall c m, m < 2 ^ b -> Forall (fun a => 1 <= a) A ->
  D b A (m + 2 ^ b * c) = m + 2 ^ b * D b (map N.pred A) c.
Proof.
  unfold D. induction A as [|a A IH]; intros c m Hm HA; cbn [fold_left map]; [reflexivity|].
  inversion HA as [|? ? Ha HA']; subst. replace a with (N.pred a + 1) at 1 by lia.
  rewrite closed_S by exact Hm. apply IH; assumption.
Qed.

Definition readb (b u : N) (k : nat) : list N := map (fun i => (u / 2 ^ (N.of_nat i * b)) mod 2 ^ b) (seq 0 k).
Lemma readb_cons b m c k : m < 2 ^ b -> readb b (m + 2 ^ b * c) (S k) = m :: readb b c k.
Proof.
  intros Hm. unfold readb. cbn [seq map]. f_equal.
  - cbn [N.of_nat]. rewrite N.mul_0_l, N.pow_0_r, N.div_1_r. pose proof (pow2_pos b).
    replace (m + 2 ^ b * c) with (m + c * 2 ^ b) by lia. rewrite N.mod_add by lia. apply N.mod_small. exact Hm.
  - rewrite <- seq_shift, map_map. apply map_ext. intros i.
    replace (N.of_nat (S i) * b) with (b + N.of_nat i * b) by lia. rewrite N.pow_add_r.
    pose proof (pow2_pos b). pose proof (pow2_pos (N.of_nat i * b)).
    rewrite <- N.div_div by lia. replace (m + 2 ^ b * c) with (c * 2 ^ b + m) by lia.
    rewrite N.div_add_l by lia. rewrite (N.div_small m _ Hm), N.add_0_r. reflexivity.
Qed.

Definition is_anchor (A : list N) (i : nat) : bool := existsb (N.eqb (N.of_nat i)) A.
Lemma spec_from_drop b a A : forall k i s, (a < N.of_nat i) ->
  spec_indices_from b (a :: A) i k s = spec_indices_from b A i k s.
Proof.
  induction k as [|k IH]; intros i s Ha; cbn [spec_indices_from]; [reflexivity|].
  cbn [existsb]. replace (N.of_nat i =? a) with false by (symmetry; apply N.eqb_neq; lia). cbn [orb].
  rewrite IH by lia. reflexivity.
Qed.
Lemma no_anchor A i : Forall (fun a => N.of_nat i < a) A -> existsb (N.eqb (N.of_nat i)) A = false.
Proof.
  induction 1 as [|a A Ha _ IH]; cbn [existsb]; [reflexivity|].
  replace (N.of_nat i =? a) with false by (symmetry; apply N.eqb_neq; lia). exact IH.
Qed.

(* strictly increasing anchors, all at or after position i *)
Fixpoint incr_from (i : N) (A : list N) : Prop :=
  match A with [] => True | a :: A' => i <= a /\ incr_from (a + 1) A' end.
Lemma incr_from_weaken i j A : j <= i -> incr_from i A -> incr_from j A.
Proof. destruct A as [|a A]; cbn [incr_from]; [tauto|]. intros H [H1 H2]. split; [lia|exact H2]. Qed.
Lemma incr_from_Forall i A : incr_from i A -> Forall (fun a => i <= a) A.
Proof.
  revert i. induction A as [|a A IH]; intros i H; [constructor|]. cbn [incr_from] in H. destruct H as [H1 H2].
  constructor; [exact H1|]. specialize (IH _ H2). eapply Forall_impl; [|exact IH]. cbv beta. intros; lia.
Qed.

Lemma read_eq_spec b : 1 <= b -> forall k i A c, incr_from (N.of_nat i) A ->
  readb b (D b (map (fun a => a - N.of_nat i) A) c) k = fst (spec_indices_from b A i k c).
Proof.
  intros Hb. induction k as [|k IH]; intros i A c HA; [reflexivity|].
  cbn [spec_indices_from fst]. pose proof (pow2_pos b) as HB.
  assert (Hshift : forall A', Forall (fun a => N.of_nat i + 1 <= a) A' ->
            map N.pred (map (fun a => a - N.of_nat i) A') = map (fun a => a - N.of_nat (S i)) A').
  { intros A' H. rewrite map_map. apply map_ext_in. intros a Ha. lia. }
  assert (Hge1 : forall A', Forall (fun a => N.of_nat i + 1 <= a) A' -> Forall (fun a => 1 <= a) (map (fun a => a - N.of_nat i) A')).
  { intros A' H. apply Forall_map. eapply Forall_impl; [|exact H]. cbv beta. intros; lia. }
  destruct A as [|a A'].
  - cbn [map existsb]. unfold take. cbn [fst snd].
    pose proof (N.div_mod c (2 ^ b) ltac:(lia)) as E. rewrite E at 1.
    change (D b [] (2 ^ b * (c / 2 ^ b) + c mod 2 ^ b)) with (2 ^ b * (c / 2 ^ b) + c mod 2 ^ b).
    replace (2 ^ b * (c / 2 ^ b) + c mod 2 ^ b) with (c mod 2 ^ b + 2 ^ b * (c / 2 ^ b)) by lia.
    rewrite readb_cons by (apply N.mod_lt; lia). f_equal.
    specialize (IH (S i) [] (c / 2 ^ b) I). cbn [map] in IH. exact IH.
  - cbn [incr_from] in HA. destruct HA as [Hia HA'].
    destruct (N.eq_dec a (N.of_nat i)) as [Ea|Ea].
    + (* the anchor: one bit narrower *)
      subst a. cbn [existsb]. rewrite N.eqb_refl. cbn [orb]. unfold take. cbn [fst snd].
      cbn [map]. rewrite N.sub_diag. change (D b (0 :: map (fun a => a - N.of_nat i) A') c) with (D b (map (fun a => a - N.of_nat i) A') (closed b c 0)).
      assert (HF : closed b c 0 = c mod 2 ^ (b - 1) + 2 ^ b * (c / 2 ^ (b - 1))).
      { unfold closed. rewrite N.mul_0_l, N.pow_0_r, N.mod_1_r, N.div_1_r. unfold Fins. lia. }
      rewrite HF.
      pose proof (incr_from_Forall _ _ HA') as HF'.
      assert (Hlow : c mod 2 ^ (b - 1) < 2 ^ b).
      { pose proof (pow2_pos (b - 1)). pose proof (N.mod_lt c (2 ^ (b - 1)) ltac:(lia)). rewrite (pow2_split b Hb). lia. }
      rewrite D_shift by (try exact Hlow; apply Hge1; exact HF').
      rewrite readb_cons by exact Hlow. f_equal.
      rewrite Hshift by exact HF'. rewrite spec_from_drop by lia.
      apply IH. replace (N.of_nat (S i)) with (N.of_nat i + 1) by lia. exact HA'.
    + assert (Hlt : N.of_nat i + 1 <= a) by lia.
      assert (HFa : Forall (fun x => N.of_nat i + 1 <= x) (a :: A')).
      { constructor; [exact Hlt|]. pose proof (incr_from_Forall _ _ HA') as H. eapply Forall_impl; [|exact H]. cbv beta. intros; lia. }
      rewrite no_anchor by (eapply Forall_impl; [|exact HFa]; cbv beta; intros; lia).
      unfold take. cbn [fst snd].
      pose proof (N.div_mod c (2 ^ b) ltac:(lia)) as E. rewrite E at 1.
      replace (2 ^ b * (c / 2 ^ b) + c mod 2 ^ b) with (c mod 2 ^ b + 2 ^ b * (c / 2 ^ b)) by lia.
      rewrite D_shift by (try (apply N.mod_lt; lia); apply Hge1; exact HFa).
      rewrite readb_cons by (apply N.mod_lt; lia). f_equal.
      rewrite Hshift by exact HFa. apply IH.
      cbn [incr_from]. split; [lia|exact HA'].
Qed.

(* total width read, the stream left over, and insensitivity to the bits beyond *)
Fixpoint wsum (b : N) (A : list N) (i k : nat) : N :=
  match k with O => 0 | S k' => (if is_anchor A i then b - 1 else b) + wsum b A (S i) k' end.
Lemma spec_from_rest b A : forall k i s, snd (spec_indices_from b A i k s) = s / 2 ^ (wsum b A i k).
Proof.
  induction k as [|k IH]; intros i s; cbn [spec_indices_from wsum snd]; [rewrite N.pow_0_r, N.div_1_r; reflexivity|].
  rewrite IH. unfold take, is_anchor. cbn [snd]. rewrite N.pow_add_r, N.div_div by (apply N.pow_nonzero; lia). reflexivity.
Qed.
Lemma spec_from_mod b A : forall k i s n, wsum b A i k <= n ->
  fst (spec_indices_from b A i k (s mod 2 ^ n)) = fst (spec_indices_from b A i k s).
Proof.
  induction k as [|k IH]; intros i s n Hn; cbn [spec_indices_from fst]; [reflexivity|].
  cbn [wsum] in Hn. unfold is_anchor in Hn. set (w := if existsb (N.eqb (N.of_nat i)) A then b - 1 else b) in *.
  unfold take. cbn [fst snd].
  assert (En : 2 ^ n = 2 ^ w * 2 ^ (n - w)) by (rewrite <- N.pow_add_r; f_equal; lia).
  pose proof (pow2_pos w). pose proof (pow2_pos (n - w)).
  f_equal.
  - rewrite En, N.mod_mul_r by lia. replace (s mod 2 ^ w + 2 ^ w * ((s / 2 ^ w) mod 2 ^ (n - w))) with (s mod 2 ^ w + ((s / 2 ^ w) mod 2 ^ (n - w)) * 2 ^ w) by lia.
    rewrite N.mod_add by lia. apply N.mod_mod. lia.
  - assert (Ed : (s mod 2 ^ n) / 2 ^ w = (s / 2 ^ w) mod 2 ^ (n - w)).
    { rewrite En, N.mod_mul_r by lia. replace (s mod 2 ^ w + 2 ^ w * ((s / 2 ^ w) mod 2 ^ (n - w))) with (((s / 2 ^ w) mod 2 ^ (n - w)) * 2 ^ w + s mod 2 ^ w) by lia.
      rewrite N.div_add_l by lia. rewrite (N.div_small (s mod 2 ^ w)) by (apply N.mod_lt; lia). lia. }
    rewrite Ed. apply IH. lia.
Qed.

(* finite facts about every anchor list the tables can produce *)
Fixpoint incr_fromb (i : N) (A : list N) : bool :=
  match A with [] => true | a :: A' => (i <=? a) && incr_fromb (a + 1) A' end.
Lemma incr_fromb_spec A : forall i, incr_fromb i A = true -> incr_from i A.
Proof. induction A as [|a A IH]; intros i H; cbn [incr_fromb incr_from] in *; [exact I|]. apply andb_prop in H. destruct H as [H1 H2]. split; [lia|apply IH; exact H2]. Qed.
Lemma t_anchor_lists : forallb (fun A => incr_fromb 0 A && (N.of_nat (length A) <=? 3) &&
  forallb (fun b => wsum b A 0 16 =? 16 * b - N.of_nat (length A)) [2; 3; 4]) all_anchor_lists = true.
Proof. vm_compute. reflexivity. Qed.

Theorem indices_eq b A s : In b [2; 3; 4] -> In A all_anchor_lists -> impl_indices b A s = spec_indices b A s.
Proof.
  intros Hb HA. pose proof t_anchor_lists as T. rewrite forallb_forall in T. specialize (T A HA). cbv beta in T.
  apply andb_prop in T. destruct T as [T Tw]. apply andb_prop in T. destruct T as [Tincr Tlen].
  rewrite forallb_forall in Tw. specialize (Tw b Hb). cbv beta in Tw. apply N.eqb_eq in Tw. apply N.leb_le in Tlen.
  apply incr_fromb_spec in Tincr.
  assert (Hb1 : 1 <= b /\ b <= 4) by (cbn [In] in Hb; lia). destruct Hb1 as [Hb1 Hb4].
  unfold impl_indices, spec_indices. cbv zeta. set (n := 16 * b - N.of_nat (length A)) in *.
  unfold take. cbn [fst snd].
  rewrite (fold_dec b A Hb1 (s mod 2 ^ n) n) by (try (apply N.mod_lt, N.pow_nonzero; lia); lia).
  fold (readb b (D b A (s mod 2 ^ n)) 16).
  replace A with (map (fun a => a - N.of_nat 0) A) at 1 by (rewrite <- (map_id A) at 2; apply map_ext; intros; cbn; lia).
  rewrite (read_eq_spec b Hb1 16 0 A (s mod 2 ^ n) Tincr).
  rewrite spec_from_mod by lia.
  rewrite (surjective_pairing (spec_indices_from b A 0 16 s)) at 2. f_equal.
  rewrite spec_from_rest, Tw. reflexivity.
Qed.

(* ---- the block-level theorem: for every 16-byte block the implementation-shaped decoder (promote,
   decompress_single_index + get_index, x4 weights with >> 8) equals the specification-shaped one (bit
   replication, sequential index reads with narrower anchors, weights / 64 with >> 6) *)
Theorem bc7_model_eq_spec blk : bc7_model blk = bc7_spec blk.
Proof. apply bc7_model_eq_spec_if_indices. intros. apply indices_eq; assumption. Qed.
