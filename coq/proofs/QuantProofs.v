(* C04 / C12: the float -> 8-bit UNORM conversion (x * 255 + 0.5) as u8 for EVERY f32 in [0, 2^40): it is monotone,
   and for each k its decision boundary between k-1 and k is the f32 T8 k, which is within one ULP of the
   correctly rounded ideal boundary (k - 1/2) / 255.  Proof: monotonicity of the float model's rounding
   (proofs/RoundInt.v, proofs/FloatMono.v) + the 255 boundaries by computation. *)
From Coq Require Import ZArith List Bool Lia.
From DDSV Require Import model.Float model.Convert model.Encode spec.SpecNum proofs.RoundInt proofs.FloatMono.
Import ListNotations.
Local Open Scope Z_scope.

(* least pattern in c-2 .. c+2 whose value quantises to at least k *)
Definition find_thr (Q : Z -> Z) (k c : Z) : Z :=
  if k <=? Q (c - 2) then c - 2 else if k <=? Q (c - 1) then c - 1 else if k <=? Q c then c else if k <=? Q (c + 1) then c + 1 else c + 2.
Definition ideal_boundary (max k : Z) : Z := f32_bits (f32_div (F (2 * k - 1)) (F (2 * max))).
Definition T8 (k : Z) : Z := find_thr n8_from k (ideal_boundary 255 k).

Lemma t_T8 : forallb (fun k => let t := T8 k in
  (n8_from (t - 1) =? k - 1) && (n8_from t =? k) && (1 <=? t) && (t <? LIM) && (Z.abs (t - ideal_boundary 255 k) <=? 1)) (map (Z.add 1) (zrange 255)) = true.
Proof. vm_compute. reflexivity. Qed.

Lemma n8_from_is_q b : n8_from b = Encode.q 255 255 (V b).
Proof. reflexivity. Qed.
Lemma n8_from_mono b b' : 0 <= b -> b <= b' -> b' < LIM -> n8_from b <= n8_from b'.
Proof.
  intros H0 Hle Hl. unfold n8_from.
  apply (q_mono 255 255 (V b) (V b') 16711680 (-16)).
  - vm_compute. reflexivity.
  - lia.
  - reflexivity.
  - lia.
  - apply of_bits_nwf; lia.
  - apply of_bits_nwf; lia.
  - apply fv_bits_mono; assumption.
Qed.
Theorem n8_from_spec b k : 0 <= b < LIM -> 1 <= k <= 255 ->
  (b < T8 k -> n8_from b <= k - 1) /\ (T8 k <= b -> k <= n8_from b) /\ Z.abs (T8 k - ideal_boundary 255 k) <= 1.
Proof.
  intros Hb Hk. pose proof t_T8 as T. rewrite forallb_forall in T.
  assert (Hin : In k (map (Z.add 1) (zrange 255))).
  { apply in_map_iff. exists (k - 1). split; [lia|]. apply zr_aux_In. lia. }
  specialize (T k Hin). cbv zeta in T.
  apply andb_prop in T. destruct T as [T A5]. apply andb_prop in T. destruct T as [T A4]. apply andb_prop in T. destruct T as [T A3].
  apply andb_prop in T. destruct T as [A1 A2]. apply Z.eqb_eq in A1, A2. apply Z.leb_le in A3, A5. apply Z.ltb_lt in A4.
  split; [|split; [|exact A5]].
  - intros Hlt. rewrite <- A1. apply n8_from_mono; lia.
  - intros Hge. rewrite <- A2. apply n8_from_mono; lia.
Qed.
(* consequence: between consecutive boundaries the result is exactly k; below the first it is 0; above the last 255 *)
Corollary n8_from_between b k : 0 <= b < LIM -> 1 <= k < 255 -> T8 k <= b < T8 (k + 1) -> n8_from b = k.
Proof.
  intros Hb Hk [H1 H2]. destruct (n8_from_spec b k Hb ltac:(lia)) as [_ [A _]]. destruct (n8_from_spec b (k + 1) Hb ltac:(lia)) as [C _].
  specialize (A H1). specialize (C H2). lia.
Qed.
