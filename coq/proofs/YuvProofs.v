(* C04: BT.601 limited-range YUV on the grey axis (neutral chroma).  8-bit: every luma code decodes to the nearest
   8-bit value of clamp((y - 16) / 219).  10- and 16-bit formats: finding F16 - the 8-bit matrix is applied to the
   wider codes and the result divided by 1023 / 65535 instead of 1020 / 65280, so nominal white is not 1.0. *)
From Coq Require Import ZArith List Bool Lia.
From DDSV Require Import model.Float model.Convert spec.SpecNum.
Import ListNotations.
Local Open Scope Z_scope.
Lemma t_yuv8_grey : forallb (fun y => match yuv 8 0 y 128 128 with
  | [r; g; b] => (r =? g) && (g =? b) && nearestb r (Z.min 219 (Z.max 0 (y - 16)) * 255) 219 | _ => false end) (zrange 256) = true.
Proof. vm_compute. reflexivity. Qed.
Theorem yuv8_grey_axis y : 0 <= y < 256 -> exists g, yuv 8 0 y 128 128 = [g; g; g] /\ nearest g (Z.min 219 (Z.max 0 (y - 16)) * 255) 219.
Proof.
  intros Hy. pose proof (zsweep _ _ t_yuv8_grey y Hy) as H. cbv beta in H.
  destruct (yuv 8 0 y 128 128) as [|r [|g [|b [|? ?]]]]; try discriminate.
  apply andb_prop in H. destruct H as [H N]. apply andb_prop in H. destruct H as [A B]. apply Z.eqb_eq in A, B. subst g b.
  exists r. split; [reflexivity|apply nearestb_spec; exact N].
Qed.
(* finding F16: nominal white of the 10- and 16-bit formats *)
Theorem yuv_wide_white_refuted :
  yuv 10 0 940 512 512 = [254; 254; 254] /\ yuv 10 1 940 512 512 = [65343; 65343; 65343] /\ yuv 16 0 60160 32768 32768 = [254; 254; 254].
Proof. vm_compute. auto. Qed.
