(* C19: format metadata agrees across the tables (header-side pixel info vs. format-side pixel info). *)
From DDSV Require Import base.Machine model.Layout model.Formats model.HeaderTypes gen.GenFormats gen.GenHeader model.Header spec.SpecLayout.

Definition opi_eqb (a b : option pixel_info) : bool :=
  match a, b with Some x, Some y => pi_eqb x y | _, _ => false end.
Lemma pi_eqb_eq x y : pi_eqb x y = true -> x = y.
Proof.
  destruct x, y; cbn [pi_eqb]; try discriminate; intros H;
    repeat (apply andb_prop in H; destruct H as [H ?]);
    repeat match goal with E : (_ =? _) = true |- _ => apply N.eqb_eq in E end; subst; reflexivity.
Qed.
Lemma opi_eqb_eq a b : opi_eqb a b = true -> a = b /\ b <> None.
Proof. destruct a, b; cbn; try discriminate. intros H. apply pi_eqb_eq in H. subst. split; [reflexivity|discriminate]. Qed.

(* finite facts about the implementation's current tables (regenerated on every run) *)
Lemma table_dxgi : forallb (fun row =>
    match dx_fmt row with Some f => opi_eqb (dx_pi row) (fmt_pi f) | None => true end &&
    (if dx_code row =? 74 then opi_eqb (dx_pi row) (fmt_pi FMT_BC2_PREMUL) else true) &&
    (if dx_code row =? 77 then opi_eqb (dx_pi row) (fmt_pi FMT_BC3_PREMUL) else true)) dxgi_rows = true.
Proof. vm_compute. reflexivity. Qed.
Lemma table_fourcc : forallb (fun row => match cc_fmt row with Some f => opi_eqb (fmt_pi f) (fmt_pi f) | None => true end) fourcc_rows = true.
Proof. vm_compute. reflexivity. Qed.
Lemma table_mask : forallb (fun row => opi_eqb (Some (Fixed (mk_bits row / 8))) (fmt_pi (mk_fmt row))) mask_rows = true.
Proof. vm_compute. reflexivity. Qed.

(* for every header from which a format is detected, the pixel layout derived from the header equals the
   pixel layout of that format; all dimension / flag / mask fields symbolic *)
Theorem pixelinfo_header_eq_format h f : format_of_header h = Some f ->
  pixel_info_of_header h = fmt_pi f /\ fmt_pi f <> None.
Proof.
  destruct h as [hh w d m c2 [cc|fl n r g b a]|hh w d m dx dim misc arr al]; cbn [format_of_header pixel_info_of_header].
  - destruct (fourcc_lookup cc) as [row|] eqn:El; [|discriminate]. intros E. rewrite E.
    apply find_some in El. destruct El as [Hin _].
    pose proof table_fourcc as T. rewrite forallb_forall in T. specialize (T row Hin). rewrite E in T.
    apply opi_eqb_eq in T. split; [reflexivity|apply T].
  - destruct (mask_lookup fl n r g b a) as [row|] eqn:El; [|discriminate]. cbn [option_map]. intros E. injection E as <-.
    apply find_some in El. destruct El as [Hin Hm].
    pose proof table_mask as T. rewrite forallb_forall in T. specialize (T row Hin). apply opi_eqb_eq in T.
    unfold mask_matches in Hm. repeat (apply andb_prop in Hm; destruct Hm as [Hm ?]).
    assert (mk_bits row = n) by (apply N.eqb_eq; assumption). subst n. exact T.
  - destruct (dxgi_lookup dx) as [row|] eqn:El; [|discriminate].
    apply find_some in El. destruct El as [Hin Hc]. apply N.eqb_eq in Hc.
    pose proof table_dxgi as T. rewrite forallb_forall in T. specialize (T row Hin).
    apply andb_prop in T. destruct T as [T T3]. apply andb_prop in T. destruct T as [T1 T2]. rewrite Hc in T2, T3.
    destruct ((al =? 2) && (dx =? 74)) eqn:E2.
    + apply andb_prop in E2. destruct E2 as [_ E2]. rewrite E2 in T2. intros E. injection E as <-. apply opi_eqb_eq in T2. exact T2.
    + destruct ((al =? 2) && (dx =? 77)) eqn:E3.
      * apply andb_prop in E3. destruct E3 as [_ E3]. rewrite E3 in T3. intros E. injection E as <-. apply opi_eqb_eq in T3. exact T3.
      * intros E. rewrite E in T1. apply opi_eqb_eq in T1. exact T1.
Qed.

(* every implemented format has a well-formed pixel layout (so C02 / C06 / C07 apply to each of them) *)
Definition wf_pi_b (p : pixel_info) : bool :=
  match p with
  | Fixed b => (1 <=? b) && (b <=? 255)
  | Block by_ bw bh => (1 <=? by_) && (by_ <=? 255) && (1 <=? bw) && (bw <=? 15) && (1 <=? bh) && (bh <=? 15)
  | BiPlanar b1 b2 sx sy => (b1 <=? 15) && (b2 <=? 15) && (1 <=? b1 + b2) && (1 <=? sx) && (sx <=? 15) && (1 <=? sy) && (sy <=? 15)
  end.
Lemma wf_pi_b_spec p : wf_pi_b p = true -> wf_pixel_info p.
Proof. destruct p; cbn [wf_pi_b wf_pixel_info]; intros H; repeat (apply andb_prop in H; destruct H as [H ?]); lia. Qed.
Lemma table_formats_wf : forallb (fun row => wf_pi_b (f_pi row)) fmt_table = true.
Proof. vm_compute. reflexivity. Qed.
Lemma table_dxgi_wf : forallb (fun row => match dx_pi row with Some p => wf_pi_b p | None => true end) dxgi_rows = true.
Proof. vm_compute. reflexivity. Qed.
Theorem formats_wf row : In row fmt_table -> wf_pixel_info (f_pi row).
Proof. intros H. apply wf_pi_b_spec. pose proof table_formats_wf as T. rewrite forallb_forall in T. apply T. exact H. Qed.

(* encodability metadata: a size multiple is advertised exactly for the bi-planar formats and equals their
   sub-sampling; formats that cannot be split (no split height) are exactly those; local dithering only for
   formats with split height 4 *)
Lemma table_size_multiple : forallb (fun row =>
    match f_enc row, f_pi row with
    | Some en, BiPlanar _ _ sx sy => (e_mul_x en =? sx) && (e_mul_y en =? sy) && (e_split_height en =? 0)
    | Some en, _ => (e_mul_x en =? 1) && (e_mul_y en =? 1) && negb (e_split_height en =? 0)
    | None, _ => true
    end) fmt_table = true.
Proof. vm_compute. reflexivity. Qed.

(* bits per pixel as PixelInfo::bits_per_pixel computes it *)
Definition bits_per_pixel (p : pixel_info) : N :=
  match p with
  | Fixed b => b * 8
  | Block by_ bw bh => div_ceil (by_ * 8) (bw * bh)
  | BiPlanar b1 b2 sx sy => b1 * 8 + div_ceil (b2 * 8) (sx * sy)
  end.
(* for surfaces made of whole blocks the advertised bits per pixel bound the encoded size from above *)
Theorem bits_per_pixel_bounds p w h : wf_pixel_info p ->
  match p with
  | Fixed b => spec_len p w h * 8 = bits_per_pixel p * (w * h)
  | Block by_ bw bh => spec_len p (w * bw) (h * bh) * 8 <= bits_per_pixel p * (w * bw * (h * bh))
  | BiPlanar b1 b2 sx sy => spec_len p (w * sx) (h * sy) * 8 <= bits_per_pixel p * (w * sx * (h * sy))
  end.
Proof.
  intros Hp. destruct p as [b|by_ bw bh|b1 b2 sx sy]; cbn [spec_len bits_per_pixel wf_pixel_info] in *.
  - lia.
  - assert (E1 : div_ceil (w * bw) bw = w) by (unfold div_ceil; destruct (N.eq_dec w 0) as [->|]; [rewrite N.mul_0_l; apply N.div_small; lia|];
      replace (w * bw + bw - 1) with ((bw - 1) + w * bw) by lia; rewrite N.div_add by lia; rewrite N.div_small by lia; lia).
    assert (E2 : div_ceil (h * bh) bh = h) by (unfold div_ceil; destruct (N.eq_dec h 0) as [->|]; [rewrite N.mul_0_l; apply N.div_small; lia|];
      replace (h * bh + bh - 1) with ((bh - 1) + h * bh) by lia; rewrite N.div_add by lia; rewrite N.div_small by lia; lia).
    rewrite E1, E2. pose proof (div_ceil_spec (by_ * 8) (bw * bh) ltac:(nia)) as [_ B].
    set (D := div_ceil (by_ * 8) (bw * bh)) in *.
    replace (D * (w * bw * (h * bh))) with (w * h * (D * (bw * bh))) by ring.
    replace (w * h * by_ * 8) with (w * h * (by_ * 8)) by ring. apply N.mul_le_mono_l. exact B.
  - assert (E1 : div_ceil (w * sx) sx = w) by (unfold div_ceil; destruct (N.eq_dec w 0) as [->|]; [rewrite N.mul_0_l; apply N.div_small; lia|];
      replace (w * sx + sx - 1) with ((sx - 1) + w * sx) by lia; rewrite N.div_add by lia; rewrite N.div_small by lia; lia).
    assert (E2 : div_ceil (h * sy) sy = h) by (unfold div_ceil; destruct (N.eq_dec h 0) as [->|]; [rewrite N.mul_0_l; apply N.div_small; lia|];
      replace (h * sy + sy - 1) with ((sy - 1) + h * sy) by lia; rewrite N.div_add by lia; rewrite N.div_small by lia; lia).
    rewrite E1, E2. pose proof (div_ceil_spec (b2 * 8) (sx * sy) ltac:(nia)) as [_ B].
    set (D := div_ceil (b2 * 8) (sx * sy)) in *.
    replace ((b1 * 8 + D) * (w * sx * (h * sy))) with (w * sx * (h * sy) * b1 * 8 + w * h * (D * (sx * sy))) by ring.
    replace ((w * sx * (h * sy) * b1 + w * h * b2) * 8) with (w * sx * (h * sy) * b1 * 8 + w * h * (b2 * 8)) by ring.
    apply N.add_le_mono_l. apply N.mul_le_mono_l. exact B.
Qed.
