(* C03, BC6H: the regenerated bit layout equals the specification's, whose structure is checked; reserved modes
   decode to zero; interpolation is the exact weighted average rounded to nearest. *)
From DDSV Require Import base.Machine model.BC7 model.BC6 gen.GenBC gen.GenBC6 spec.SpecBC6Tables spec.SpecBC7Tables proofs.BC7Proofs.
Local Open Scope Z_scope.

Theorem bc6_tables_tie : bc6_two_fields = spec_bc6_two_fields.
Proof. reflexivity. Qed.

(* structure of one mode: for every endpoint e and channel c, the fields assign each bit 0 .. width-1 exactly once
   (width = a0 for endpoint w, the channel's delta width otherwise) and nothing else; the header length is right *)
Definition width_of (code : Z) (e c : N) : Z :=
  let '(a0, (dr, dg, db)) := two_params code in
  if (e =? 0)%N then a0 else if (c =? 0)%N then dr else if (c =? 1)%N then dg else db.
Definition bit_count (fs : list (N * N * N * N)) (e c : N) (bit : Z) : nat :=
  length (filter (fun f => let '(ch, ep, sh, n) := f in (ep =? e)%N && (ch =? c)%N && (Z.of_N sh <=? bit) && (bit <? Z.of_N sh + Z.of_N n)) fs).
Definition mode_ok (row : N * list (N * N * N * N)) : bool :=
  let code := Z.of_N (fst row) in
  let mode_bits := if code <? 2 then 2 else 5 in
  forallb (fun e => forallb (fun c => forallb (fun bit =>
      Nat.eqb (bit_count (snd row) e c bit) (if bit <? width_of code e c then 1 else 0)) (map Z.of_nat (seq 0 17))) [0; 1; 2]%N) [0; 1; 2; 3]%N &&
  (fold_right (fun f acc => let '(_, _, _, n) := f in Z.of_N n + acc) 0 (snd row) =? 128 - 46 - 5 - mode_bits).
Theorem bc6_tables_structure :
  length spec_bc6_two_fields = 10%nat /\ forallb mode_ok spec_bc6_two_fields = true /\
  map fst spec_bc6_two_fields = [0; 1; 2; 6; 10; 14; 18; 22; 26; 30]%N.
Proof. vm_compute. repeat split; reflexivity. Qed.

(* reserved modes (low five bits 10011, 10111, 11011, 11111) decode to all zeros *)
Theorem bc6_reserved_zero ix ft p2 signed b : Z.of_N (le128 b) mod 4 = 3 -> 4 <= (Z.of_N (le128 b) / 4) mod 8 ->
  bc6_decode_with ix ft p2 signed b = zero_block.
Proof.
  intros H1 H2. unfold bc6_decode_with. cbv zeta. rewrite H1. cbn [Z.eqb].
  replace (4 <=? Z.of_N (le128 b) / 4 mod 8) with true by (symmetry; apply Z.leb_le; exact H2). reflexivity.
Qed.
(* the interpolation step: (a (64 - w) + b w + 32) >> 6 is the weighted average rounded to nearest (floor of x + 1/2) *)
Theorem bc6_interp_nearest a b w : 0 <= w <= 64 ->
  let v := Z.shiftr (a * (64 - w) + b * w + 32) 6 in 64 * v <= a * (64 - w) + b * w + 32 < 64 * v + 64.
Proof.
  intros Hw. cbv zeta. rewrite Z.shiftr_div_pow2 by lia. change (2 ^ 6) with 64.
  pose proof (Z.div_mod (a * (64 - w) + b * w + 32) 64 ltac:(lia)) as E. pose proof (Z.mod_pos_bound (a * (64 - w) + b * w + 32) 64 ltac:(lia)).
  set (q := (a * (64 - w) + b * w + 32) / 64) in *. lia.
Qed.
(* the weights are those of the specification and are within 0 .. 64 *)
Theorem bc6_weights : weights3 = [0; 9; 18; 27; 37; 46; 55; 64] /\ weights4 = [0; 4; 9; 13; 17; 21; 26; 30; 34; 38; 43; 47; 51; 55; 60; 64].
Proof. split; reflexivity. Qed.
(* unquantisation maps the extreme codes to the extreme values and 0 to 0 (unsigned), and is odd (signed) *)
Theorem bc6_unquantize_ends bits : 1 <= bits < 15 ->
  unquantize false 0 bits = 0 /\ unquantize false (2 ^ bits - 1) bits = 65535 /\
  (forall c, unquantize true (- c) (bits + 1) = - unquantize true c (bits + 1)).
Proof.
  intros Hb. assert (Hp : 2 <= 2 ^ bits) by (change 2 with (2 ^ 1) at 1; apply Z.pow_le_mono_r; lia).
  split; [unfold unquantize; cbn [negb]; replace (15 <=? bits) with false by (symmetry; apply Z.leb_gt; lia); reflexivity|].
  split.
  - unfold unquantize. cbn [negb]. replace (15 <=? bits) with false by (symmetry; apply Z.leb_gt; lia).
    replace (2 ^ bits - 1 =? 0) with false by (symmetry; apply Z.eqb_neq; lia). rewrite Z.eqb_refl. reflexivity.
  - intros c. unfold unquantize. cbn [negb]. replace (16 <=? bits + 1) with false by (symmetry; apply Z.leb_gt; lia).
    rewrite Z.abs_opp. destruct (Z.ltb_spec (- c) 0), (Z.ltb_spec c 0); try lia.
    + assert (c = 0) by lia. subst c. cbn. reflexivity.
Qed.

(* the decoder as implemented (Indexes::decompress_single_index, tables as they are in the source now) equals the
   decoder over the frozen specification tables that reads the indices one by one with narrower anchors *)
Lemma anchors_of_p2 p : In (0%N :: snd (nth p spec_partition2 ([], []))) all_anchor_lists.
Proof.
  unfold all_anchor_lists. destruct (nth_in_or_default p spec_partition2 ([], [])) as [H|H].
  - right. apply in_map_iff. eexists. split; [reflexivity|]. apply in_or_app. left. exact H.
  - rewrite H. left. reflexivity.
Qed.
Theorem bc6_model_eq_spec signed blk : bc6_model signed blk = bc6_spec signed blk.
Proof.
  unfold bc6_model, bc6_spec. rewrite bc6_tables_tie. destruct tables_tie as [-> _].
  unfold bc6_decode_with. cbv zeta.
  assert (H1 : forall s code, decode_one impl_indices signed code s = decode_one spec_indices signed code s).
  { intros s code. unfold decode_one. cbv zeta. rewrite indices_eq; [reflexivity|cbn; tauto|left; reflexivity]. }
  assert (H2 : forall s code, decode_two impl_indices signed spec_bc6_two_fields spec_partition2 code s = decode_two spec_indices signed spec_bc6_two_fields spec_partition2 code s).
  { intros s code. unfold decode_two. destruct (find _ spec_bc6_two_fields) as [row|]; [|reflexivity].
    destruct (two_params code) as [a0 [[dr dg] db]]. cbv zeta.
    rewrite indices_eq; [reflexivity|cbn; tauto|apply anchors_of_p2]. }
  rewrite !H1, !H2. reflexivity.
Qed.
