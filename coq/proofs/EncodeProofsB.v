(* C12: 16-bit inputs round trip exactly through 16-bit UNORM and f32 storage (all 65536 values) *)
From Coq Require Import ZArith List Bool Lia.
From DDSV Require Import model.Float model.Convert model.Encode spec.SpecNum.
Local Open Scope Z_scope.
Definition b16 (x : Z) : Z := f32_bits (n16_f32 x).
Lemma t_rt16 : forallb (fun x => (n16_from (b16 x) =? x) && (fp_n16 (V (b16 x)) =? x)) (zrange 65536) = true.
Proof. vm_compute. reflexivity. Qed.
Theorem roundtrip_u16 x : 0 <= x < 65536 -> n16_from (b16 x) = x /\ fp_n16 (V (b16 x)) = x.
Proof. intros Hx. pose proof (zsweep _ _ t_rt16 x Hx) as H. cbv beta in H. apply andb_prop in H. destruct H as [A B]. split; apply Z.eqb_eq; assumption. Qed.
