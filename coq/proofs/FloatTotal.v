(* C04 / C12: the quantiser on the rest of the f32 domain - negative values and -0 give 0, values from 2^40 up and
   +infinity give the maximum, NaN gives 0 - so that, with proofs/QuantProofs*.v, the conversion is decided for
   EVERY 32-bit pattern. *)
From Coq Require Import ZArith List Bool Lia.
From DDSV Require Import model.Float model.Convert model.Encode proofs.RoundInt proofs.FloatMono.
Import ListNotations.
Local Open Scope Z_scope.

(* round_me without the no-overflow premise: +infinity, or the integer rounding (the proof of round_me_rnd_wf with the
   overflow tests kept as case distinctions) *)
Lemma round_me_total M E : 0 < M -> - B <= E ->
  round_me 24 (-149) 104 false M E = Finf false \/
  (fv (round_me 24 (-149) 104 false M E) = rnd32 (M * 2 ^ (E + B)) /\ nwf 104 (round_me 24 (-149) 104 false M E)).
Proof.
  intros HM HE. unfold round_me, round_sticky. replace (M <=? 0) with false by (symmetry; apply Z.leb_gt; lia).
  set (bits := Z.log2 M + 1). set (shift := Z.max (bits - 24) (-149 - E)).
  assert (Hk : 0 <= E + B) by (unfold B in *; lia).
  pose proof (pow2_pos (E + B) Hk) as HpK.
  assert (Hlog : Z.log2 (M * 2 ^ (E + B)) = Z.log2 M + (E + B)) by (apply log2_scaled; lia).
  assert (Hu : uexp 24 UMIN (M * 2 ^ (E + B)) = shift + (E + B)).
  { unfold uexp. rewrite Hlog. unfold shift, bits, UMIN, B. lia. }
  unfold rnd32, rnd. rewrite Hu.
  destruct (Z.leb_spec shift 0) as [Hs|Hs].
  - (* exactly representable *)
    set (l := Z.min (24 - bits) (E - -149)).
    assert (Hl : 0 <= l) by (unfold l, shift in *; lia).
    destruct (Z.ltb_spec 104 (E - l)) as [Hov|He']; [left; reflexivity|right].
    rewrite Z.shiftl_mul_pow2 by lia. pose proof (pow2_pos l Hl).
    assert (Hml : M * 2 ^ l < 2 ^ 24).
    { destruct (Z.log2_spec M HM) as [_ Hlt]. pose proof (Z.log2_nonneg M).
      assert (2 ^ Z.succ (Z.log2 M) * 2 ^ l <= 2 ^ 24) by (rewrite <- Z.pow_add_r by lia; apply Z.pow_le_mono_r; unfold l, bits; lia). nia. }
    split; [|cbn [nwf]; rewrite Z2Pos.id by nia; split; [unfold l, shift, bits in *; lia|exact Hml]].
    cbn [fv]. rewrite Z2Pos.id by nia.
    assert (Eval : M * 2 ^ l * 2 ^ (E - l + B) = M * 2 ^ (E + B)).
    { rewrite <- Z.mul_assoc, <- Z.pow_add_r by (unfold l, B in *; lia). f_equal. f_equal. lia. }
    rewrite Eval.
    destruct (Z.leb_spec (shift + (E + B)) 0) as [Hu0|Hu0]; [unfold rne; replace (shift + (E + B) <=? 0) with true by (symmetry; apply Z.leb_le; lia); reflexivity|].
    assert (Esplit : M * 2 ^ (E + B) = (M * 2 ^ (- shift)) * 2 ^ (shift + (E + B))).
    { rewrite <- Z.mul_assoc, <- Z.pow_add_r by lia. f_equal. f_equal. lia. }
    rewrite Esplit at 2. rewrite rne_exact by (pose proof (pow2_pos (- shift) ltac:(lia)); nia). lia.
  - (* rounding *)
    assert (Hu0 : 0 < shift + (E + B)) by lia.
    pose proof (pow2_pos shift ltac:(lia)) as HpS. pose proof (pow2_pos (shift - 1) ltac:(lia)) as HpH.
    rewrite Z.shiftr_div_pow2 by lia. set (q := M / 2 ^ shift).
    rewrite (Z.shiftl_mul_pow2 q shift) by lia. rewrite (Z.shiftl_mul_pow2 1 (shift - 1)) by lia. rewrite Z.mul_1_l.
    assert (Hq0 : 0 <= q) by (apply Z.div_pos; lia).
    pose proof (Z.div_mod M (2 ^ shift) ltac:(lia)) as EM. fold q in EM.
    assert (Er : M - q * 2 ^ shift = M mod 2 ^ shift) by lia. rewrite Er. set (r := M mod 2 ^ shift).
    (* the same decision on the scaled value *)
    unfold rne. replace (shift + (E + B) <=? 0) with false by (symmetry; apply Z.leb_gt; lia).
    assert (Epow : 2 ^ (shift + (E + B)) = 2 ^ shift * 2 ^ (E + B)) by (apply Z.pow_add_r; lia).
    assert (Ediv : M * 2 ^ (E + B) / 2 ^ (shift + (E + B)) = q).
    { rewrite Epow. rewrite Z.div_mul_cancel_r by lia. reflexivity. }
    assert (Emod : (M * 2 ^ (E + B)) mod 2 ^ (shift + (E + B)) = r * 2 ^ (E + B)).
    { rewrite Epow. rewrite Z.mul_mod_distr_r by lia. reflexivity. }
    assert (Ehalf : 2 ^ (shift + (E + B) - 1) = 2 ^ (shift - 1) * 2 ^ (E + B)).
    { rewrite <- Z.pow_add_r by lia. f_equal. lia. }
    rewrite Ediv, Emod, Ehalf.
    assert (Elt : (2 ^ (shift - 1) * 2 ^ (E + B) <? r * 2 ^ (E + B)) = (2 ^ (shift - 1) <? r)).
    { destruct (Z.ltb_spec (2 ^ (shift - 1)) r); [apply Z.ltb_lt|apply Z.ltb_ge]; nia. }
    assert (Eeq : (r * 2 ^ (E + B) =? 2 ^ (shift - 1) * 2 ^ (E + B)) = (r =? 2 ^ (shift - 1))).
    { destruct (Z.eqb_spec r (2 ^ (shift - 1))) as [->|Hne]; [apply Z.eqb_refl|apply Z.eqb_neq; nia]. }
    rewrite Elt, Eeq. change (false || Z.odd q) with (Z.odd q).
    set (up := (2 ^ (shift - 1) <? r) || ((r =? 2 ^ (shift - 1)) && Z.odd q)).
    set (q' := if up then q + 1 else q).
    assert (Hq' : 0 <= q') by (unfold q'; destruct up; lia).
    destruct (Z.eqb_spec q' 0) as [E0|N0]; [right; split; [cbn [fv]; rewrite E0; lia|exact I]|].
    replace (Z.shiftl 1 24) with 16777216 by reflexivity. replace (Z.shiftl 1 (24 - 1)) with 8388608 by reflexivity.
    assert (Hqb : q < 16777216).
    { unfold q. apply Z.div_lt_upper_bound; [lia|]. destruct (Z.log2_spec M HM) as [_ Hlt].
      assert (2 ^ Z.succ (Z.log2 M) <= 2 ^ shift * 16777216).
      { change 16777216 with (2 ^ 24). rewrite <- Z.pow_add_r by lia. apply Z.pow_le_mono_r; [lia|]. unfold shift, bits. lia. }
      lia. }
    assert (Hq'b : q' <= 16777216) by (unfold q'; destruct up; lia).
    destruct (Z.eqb_spec q' 16777216) as [E24|N24].
    + destruct (Z.ltb_spec 104 (E + shift + 1)) as [Hov|He2]; [left; reflexivity|right].
      split; [|cbn [nwf]; split; [unfold shift, bits in *; lia|reflexivity]].
      cbn [fv]. change (Z.pos (Z.to_pos 8388608)) with 8388608. rewrite E24.
      replace (E + shift + 1 + B) with (1 + (shift + (E + B))) by lia. rewrite Z.pow_add_r by lia. lia.
    + destruct (Z.ltb_spec 104 (E + shift)) as [Hov|He2]; [left; reflexivity|right].
      split; [|cbn [nwf]; rewrite Z2Pos.id by lia; split; [unfold shift, bits in *; lia|change (2 ^ 24) with 16777216; lia]].
      cbn [fv]. rewrite Z2Pos.id by lia. f_equal. f_equal. lia.
Qed.

Lemma round_me_sign M E : round_me 24 (-149) 104 true M E = fneg (round_me 24 (-149) 104 false M E).
Proof.
  unfold round_me, round_sticky. destruct (M <=? 0); [reflexivity|].
  destruct (Z.max (Z.log2 M + 1 - 24) (-149 - E) <=? 0).
  - destruct (104 <? _); reflexivity.
  - match goal with |- context [if ?c =? 0 then _ else _] => destruct (c =? 0) end; [reflexivity|].
    match goal with |- context [if ?c =? Z.shiftl 1 24 then _ else _] => destruct (c =? Z.shiftl 1 24) end; cbv beta iota zeta;
      match goal with |- context [if 104 <? ?e then _ else _] => destruct (104 <? e) end; reflexivity.
Qed.
(* the negation of anything round_me produces for a positive magnitude casts to 0 *)
Lemma cast_neg_round limit M E : 0 < M -> - B <= E -> to_unsigned limit (fneg (round_me 24 (-149) 104 false M E)) = 0.
Proof.
  intros HM HE. destruct (round_me_total M E HM HE) as [-> | [_ W]]; [reflexivity|].
  destruct (round_me 24 (-149) 104 false M E) as [s| | |[] m e]; try contradiction; reflexivity.
Qed.
Lemma rnd32_half : rnd32 (2 ^ (B - 1)) = 2 ^ (B - 1).
Proof. vm_compute. reflexivity. Qed.
Lemma rnd32_big : rnd32 (2 ^ (40 + B)) = 2 ^ (40 + B).
Proof. vm_compute. reflexivity. Qed.

Section Quantiser.
  Variables (max limit f : Z) (n : positive).
  Hypothesis EF : F max = Ffin false n f.
  Hypothesis Hf : -151 <= f <= 0.
  Hypothesis Hn : Zpos n < 2 ^ 24.
  Hypothesis Hc : 2 ^ B <= Zpos n * 2 ^ (f + B).          (* max >= 1 *)
  Hypothesis Hl : 0 <= limit <= 65535.

  (* negative finite values and -0 *)
  Theorem q_negative m e : -149 <= e <= 104 -> Zpos m < 2 ^ 24 ->
    Encode.q max limit (Ffin true m e) = 0 /\ Encode.q max limit (Fz true) = 0.
  Proof.
    intros He Hm. unfold Encode.q. rewrite EF. change half_f with (Ffin false 8388608 (-24)). split.
    2:{ cbn [f32_mul fmul xorb f32_add fadd to_unsigned]. change (0 <=? -24) with false. cbv iota. change (Z.shiftr (Z.pos 8388608) (- -24)) with 0. lia. }
    unfold f32_mul, fmul. cbn [xorb]. rewrite round_me_sign.
    assert (HM : 0 < Z.pos m * Z.pos n) by lia.
    destruct (round_me_total (Z.pos m * Z.pos n) (e + f) HM ltac:(unfold B; lia)) as [-> | [_ W]]; [reflexivity|].
    destruct (round_me 24 (-149) 104 false (Z.pos m * Z.pos n) (e + f)) as [s| | |[] pm pe]; try contradiction; cbn [fneg].
    - (* the product rounded to zero: -0 + 0.5 *)
      cbn [f32_add fadd to_unsigned]. change (0 <=? -24) with false. cbv iota. change (Z.shiftr (Z.pos 8388608) (- -24)) with 0. lia.
    - destruct W as [Hpe Hpm]. unfold f32_add, fadd. cbn [signed negb].
      set (e0 := Z.min pe (-24)).
      rewrite !Z.shiftl_mul_pow2 by (unfold e0; lia).
      set (v := - (Z.pos pm * 2 ^ (pe - e0)) + 8388608 * 2 ^ (-24 - e0)).
      destruct (Z.eqb_spec v 0); [reflexivity|].
      destruct (Z.ltb_spec v 0) as [Hv|Hv].
      + rewrite round_me_sign. apply cast_neg_round; [lia|unfold e0, B; lia].
      + (* 0 < sum <= 0.5 *)
        assert (Hv0 : 0 < v) by lia. rewrite Z.abs_eq by lia.
        pose proof (pow2_pos (pe - e0) ltac:(unfold e0; lia)) as Hp1. pose proof (pow2_pos (-24 - e0) ltac:(unfold e0; lia)) as Hp2.
        assert (Hle : v <= 2 ^ (-1 - e0)).
        { unfold v. replace (8388608 * 2 ^ (-24 - e0)) with (2 ^ (-1 - e0)) by (change 8388608 with (2 ^ 23); rewrite <- Z.pow_add_r by (unfold e0; lia); f_equal; lia). nia. }
        assert (Hlog : Z.log2 v <= -1 - e0).
        { rewrite <- (Z.log2_pow2 (-1 - e0)) by (unfold e0; lia). apply Z.log2_le_mono. exact Hle. }
        destruct (round_me_rnd_wf v e0 Hv0 ltac:(unfold e0, B; lia) ltac:(lia)) as [V W2].
        rewrite (to_unsigned_fv _ limit _ W2 ltac:(lia)). rewrite V.
        assert (Hb : rnd32 (v * 2 ^ (e0 + B)) <= 2 ^ (B - 1)).
        { rewrite <- rnd32_half. apply rnd32_mono; [pose proof (pow2_pos (e0 + B) ltac:(unfold e0, B; lia)); nia|].
          replace (2 ^ (B - 1)) with (2 ^ (-1 - e0) * 2 ^ (e0 + B)) by (rewrite <- Z.pow_add_r by (unfold e0, B; lia); f_equal; lia).
          pose proof (pow2_pos (e0 + B) ltac:(unfold e0, B; lia)). nia. }
        assert (Hnn : 0 <= rnd32 (v * 2 ^ (e0 + B))) by (apply rnd32_nonneg; pose proof (pow2_pos (e0 + B) ltac:(unfold e0, B; lia)); nia).
        assert (Hz : rnd32 (v * 2 ^ (e0 + B)) / 2 ^ B = 0).
        { apply Z.div_small. split; [exact Hnn|]. assert (2 ^ (B - 1) < 2 ^ B) by (apply Z.pow_lt_mono_r; unfold B; lia). lia. }
        rewrite Hz. lia.
  Qed.

  (* values from 2^40 up (finite) and +infinity *)
  Theorem q_large m e : -149 <= e <= 104 -> Zpos m < 2 ^ 24 -> 2 ^ (40 + B) <= Zpos m * 2 ^ (e + B) ->
    Encode.q max limit (Ffin false m e) = limit /\ Encode.q max limit (Finf false) = limit.
  Proof.
    intros He Hm Hbig. unfold Encode.q. rewrite EF. change half_f with (Ffin false 8388608 (-24)). split; [|cbn; lia].
    unfold f32_mul, fmul. cbn [xorb].
    assert (HM : 0 < Z.pos m * Z.pos n) by lia.
    destruct (round_me_total (Z.pos m * Z.pos n) (e + f) HM ltac:(unfold B; lia)) as [-> | [V W]]; [cbn; lia|].
    (* the product is at least 2^40 *)
    assert (Hprod : 2 ^ (40 + B) <= Z.pos m * Z.pos n * 2 ^ (e + f + B)).
    { assert (E1 : 2 ^ (e + f + B) * 2 ^ B = 2 ^ (e + B) * 2 ^ (f + B)) by (rewrite <- !Z.pow_add_r by (unfold B; lia); f_equal; lia).
      pose proof (pow2_pos B ltac:(unfold B; lia)) as HB. pose proof (pow2_pos (e + B) ltac:(unfold B; lia)). pose proof (pow2_pos (f + B) ltac:(unfold B; lia)).
      pose proof (pow2_pos (e + f + B) ltac:(unfold B; lia)).
      apply (Z.mul_le_mono_pos_r _ _ (2 ^ B)); [lia|].
      assert (E2 : Z.pos m * Z.pos n * 2 ^ (e + f + B) * 2 ^ B = Z.pos m * 2 ^ (e + B) * (Z.pos n * 2 ^ (f + B))).
      { rewrite <- Z.mul_assoc, E1. ring. }
      rewrite E2. apply Z.mul_le_mono_nonneg; lia. }
    assert (Hfp : 2 ^ (40 + B) <= fv (round_me 24 (-149) 104 false (Z.pos m * Z.pos n) (e + f))).
    { rewrite V. rewrite <- rnd32_big at 1. apply rnd32_mono; [apply Z.lt_le_incl, pow2_pos; unfold B; lia|exact Hprod]. }
    destruct (round_me 24 (-149) 104 false (Z.pos m * Z.pos n) (e + f)) as [s| | |[] pm pe]; try contradiction.
    - destruct W as [Hpe Hpm]. cbn [fv] in Hfp. unfold f32_add, fadd. cbn [signed].
      set (e0 := Z.min pe (-24)).
      rewrite !Z.shiftl_mul_pow2 by (unfold e0; lia).
      pose proof (pow2_pos (pe - e0) ltac:(unfold e0; lia)) as Hp1. pose proof (pow2_pos (-24 - e0) ltac:(unfold e0; lia)) as Hp2.
      set (v := Z.pos pm * 2 ^ (pe - e0) + 8388608 * 2 ^ (-24 - e0)).
      assert (Hv : 0 < v) by (unfold v; nia).
      replace (v =? 0) with false by (symmetry; apply Z.eqb_neq; lia).
      replace (v <? 0) with false by (symmetry; apply Z.ltb_ge; lia). rewrite Z.abs_eq by lia.
      destruct (round_me_total v e0 Hv ltac:(unfold e0, B; lia)) as [-> | [V2 W2]]; [cbn; lia|].
      rewrite (to_unsigned_fv _ limit _ W2 ltac:(lia)). rewrite V2.
      assert (Hsum : 2 ^ (40 + B) <= v * 2 ^ (e0 + B)).
      { unfold v. rewrite Z.mul_add_distr_r. rewrite <- !Z.mul_assoc, <- !Z.pow_add_r by (unfold e0, B; lia).
        replace (pe - e0 + (e0 + B)) with (pe + B) by lia. pose proof (pow2_pos (-24 - e0 + (e0 + B)) ltac:(unfold e0, B; lia)). lia. }
      assert (Hr : 2 ^ (40 + B) <= rnd32 (v * 2 ^ (e0 + B))).
      { rewrite <- rnd32_big at 1. apply rnd32_mono; [apply Z.lt_le_incl, pow2_pos; unfold B; lia|exact Hsum]. }
      assert (Hd : 2 ^ 40 <= rnd32 (v * 2 ^ (e0 + B)) / 2 ^ B).
      { apply Z.div_le_lower_bound; [apply pow2_pos; unfold B; lia|]. rewrite <- Z.pow_add_r by (unfold B; lia). replace (B + 40) with (40 + B) by lia. exact Hr. }
      change (2 ^ 40) with 1099511627776 in Hd. lia.
  Qed.
End Quantiser.

(* ---- every 32-bit pattern *)
Lemma of_bits_cases b : 0 <= b < 2 ^ 32 ->
  let s := 2147483648 <=? b in let ex := (b / 8388608) mod 256 in let fr := b mod 8388608 in
  f32_of_bits b = if ex =? 255 then (if fr =? 0 then Finf s else Fnan)
                  else if ex =? 0 then (if fr =? 0 then Fz s else Ffin s (Z.to_pos fr) (-149))
                  else Ffin s (Z.to_pos (fr + 8388608)) (ex - 150).
Proof.
  intros Hb. cbv zeta. unfold f32_of_bits, of_bits. change (8 + 24 - 1) with 31. change (24 - 1) with 23.
  rewrite Z.shiftr_div_pow2 by lia. change (2 ^ 23) with 8388608. change (Z.shiftl 1 8) with 256. change (Z.shiftl 1 23) with 8388608. change (256 - 1) with 255.
  assert (Hs : Z.testbit b 31 = (2147483648 <=? b)).
  { rewrite Z.testbit_eqb by lia. change (2 ^ 31) with 2147483648.
    assert (Hq : 0 <= b / 2147483648 < 2) by (split; [apply Z.div_pos; lia|apply Z.div_lt_upper_bound; lia]).
    destruct (Z.leb_spec 2147483648 b) as [H|H].
    - assert (b / 2147483648 = 1) by (assert (1 <= b / 2147483648) by (apply Z.div_le_lower_bound; lia); lia). rewrite H0. reflexivity.
    - rewrite Z.div_small by lia. reflexivity. }
  rewrite Hs. destruct ((b / 8388608) mod 256 =? 255); [reflexivity|]. destruct ((b / 8388608) mod 256 =? 0); [reflexivity|].
  f_equal. lia.
Qed.

Section Total.
  Variables (max limit f : Z) (n : positive).
  Hypothesis EF : F max = Ffin false n f.
  Hypothesis Hf : -151 <= f <= 0.
  Hypothesis Hn : Zpos n < 2 ^ 24.
  Hypothesis Hc : 2 ^ B <= Zpos n * 2 ^ (f + B).
  Hypothesis Hl : 0 <= limit <= 65535.
  Definition Qb (b : Z) : Z := Encode.q max limit (V b).

  Theorem q_outside b : 0 <= b < 2 ^ 32 ->
    (2147483648 <= b -> Qb b = 0) /\                               (* negative values, -0, -infinity, negative NaNs *)
    (LIM <= b <= 2139095040 -> Qb b = limit) /\                    (* 2^40 .. largest finite, +infinity *)
    (2139095040 < b < 2147483648 -> Qb b = 0).                     (* positive NaNs *)
  Proof.
    intros Hb. unfold Qb, V. rewrite (of_bits_cases b Hb). cbv zeta.
    pose proof (Z.mod_pos_bound b 8388608 ltac:(lia)) as Hfr. pose proof (Z.mod_pos_bound (b / 8388608) 256 ltac:(lia)) as Hex.
    set (ex := (b / 8388608) mod 256) in *. set (fr := b mod 8388608) in *.
    assert (Hq : 0 <= b / 8388608 < 512) by (split; [apply Z.div_pos; lia|apply Z.div_lt_upper_bound; lia]).
    pose proof (Z.div_mod b 8388608 ltac:(lia)) as Eb. fold fr in Eb.
    assert (Hnan : Encode.q max limit Fnan = 0) by (unfold Encode.q; rewrite EF; reflexivity).
    assert (Hninf : Encode.q max limit (Finf true) = 0) by (unfold Encode.q; rewrite EF; reflexivity).
    split; [|split].
    - (* sign bit set *)
      intros Hs. replace (2147483648 <=? b) with true by (symmetry; apply Z.leb_le; lia).
      destruct (Z.eqb_spec ex 255); [destruct (fr =? 0); assumption|].
      destruct (Z.eqb_spec ex 0).
      + destruct (Z.eqb_spec fr 0); [apply (proj2 (q_negative max limit f n EF Hf Hn Hl 1 0 ltac:(lia) ltac:(reflexivity)))|].
        apply (proj1 (q_negative max limit f n EF Hf Hn Hl (Z.to_pos fr) (-149) ltac:(lia) ltac:(rewrite Z2Pos.id by lia; change (2 ^ 24) with 16777216; lia))).
      + apply (proj1 (q_negative max limit f n EF Hf Hn Hl (Z.to_pos (fr + 8388608)) (ex - 150) ltac:(lia) ltac:(rewrite Z2Pos.id by lia; change (2 ^ 24) with 16777216; lia))).
    - (* large *)
      intros [H1 H2]. replace (2147483648 <=? b) with false by (symmetry; apply Z.leb_gt; lia).
      unfold LIM in H1.
      assert (Hd : 167 <= b / 8388608 <= 255) by (split; [apply Z.div_le_lower_bound; lia|apply Z.div_le_upper_bound; lia]).
      assert (Eex : ex = b / 8388608) by (unfold ex; apply Z.mod_small; lia).
      destruct (Z.eqb_spec ex 255) as [E255|N255].
      + (* only +infinity is in range *)
        assert (fr = 0) by lia. replace (fr =? 0) with true by (symmetry; apply Z.eqb_eq; assumption).
        refine (proj2 (q_large max limit f n EF Hf Hc Hl 8388608 17 ltac:(lia) ltac:(reflexivity) _)).
        change (Z.pos 8388608) with (2 ^ 23). rewrite <- Z.pow_add_r by (unfold B; lia). apply Z.pow_le_mono_r; unfold B; lia.
      + replace (ex =? 0) with false by (symmetry; apply Z.eqb_neq; lia).
        refine (proj1 (q_large max limit f n EF Hf Hc Hl (Z.to_pos (fr + 8388608)) (ex - 150) ltac:(lia) ltac:(rewrite Z2Pos.id by lia; change (2 ^ 24) with 16777216; lia) _)).
        rewrite Z2Pos.id by lia.
        assert (2 ^ (40 + B) = 8388608 * 2 ^ (17 + B)) by (change 8388608 with (2 ^ 23); rewrite <- Z.pow_add_r by (unfold B; lia); f_equal; lia).
        assert (2 ^ (17 + B) <= 2 ^ (ex - 150 + B)) by (apply Z.pow_le_mono_r; unfold B; lia).
        pose proof (pow2_pos (17 + B) ltac:(unfold B; lia)). nia.
    - (* positive NaN *)
      intros [H1 H2]. replace (2147483648 <=? b) with false by (symmetry; apply Z.leb_gt; lia).
      assert (Hd : b / 8388608 = 255).
      { assert (255 <= b / 8388608) by (apply Z.div_le_lower_bound; lia). assert (b / 8388608 < 256) by (apply Z.div_lt_upper_bound; lia). lia. }
      assert (Eex : ex = 255) by (unfold ex; rewrite Hd; reflexivity).
      rewrite Eex. change (255 =? 255) with true. cbv iota.
      replace (fr =? 0) with false by (symmetry; apply Z.eqb_neq; lia). exact Hnan.
  Qed.
End Total.

(* the two conversions used for f32 channels: outside [0, 2^40) *)
Theorem n8_from_outside b : 0 <= b < 2 ^ 32 ->
  (2147483648 <= b -> n8_from b = 0) /\ (LIM <= b <= 2139095040 -> n8_from b = 255) /\ (2139095040 < b < 2147483648 -> n8_from b = 0).
Proof.
  apply (q_outside 255 255 (-16) 16711680); try lia.
  - vm_compute. reflexivity.
  - vm_compute. discriminate.
Qed.
Theorem n16_from_outside b : 0 <= b < 2 ^ 32 ->
  (2147483648 <= b -> n16_from b = 0) /\ (LIM <= b <= 2139095040 -> n16_from b = 65535) /\ (2139095040 < b < 2147483648 -> n16_from b = 0).
Proof.
  apply (q_outside 65535 65535 (-8) 16776960); try lia.
  - vm_compute. reflexivity.
  - vm_compute. discriminate.
Qed.
