(* C12 / C10 / C14: the chunking of the uncompressed encoders (model/EncChunks.v) does not change what is encoded:
   the row-by-row fill / flush path of for_each_chunk hands out exactly the chunks of the contiguous path (same chunk
   sequence, hence the same bytes and the same progress reports whatever the row pitch), and the sub-sampled encoder's
   per-row chunks produce exactly the blocks of the whole row, ceil(width / bw) of them. *)
From Coq Require Import List Bool Lia Arith.
From DDSV Require Import model.EncChunks.
Import ListNotations.

Section Proofs.
Variables (X Y : Type).
Variable n : nat.
Hypothesis Hn : 1 <= n.
Notation chunks := (chunks X).
Notation chunks_fuel := (chunks_fuel X).

Lemma skipn_length_le (l : list X) k : length (skipn k l) <= length l.
Proof. rewrite skipn_length. lia. Qed.
Lemma chunks_fuel_more : forall f1 f2 (l : list X), length l <= f1 -> length l <= f2 -> chunks_fuel f1 n l = chunks_fuel f2 n l.
Proof.
  induction f1 as [|f1 IH]; intros f2 l H1 H2.
  - destruct l; [|simpl in H1; lia]. destruct f2; reflexivity.
  - destruct l as [|x l]; [destruct f2; reflexivity|]. destruct f2 as [|f2]; [simpl in H2; lia|].
    cbn [EncChunks.chunks_fuel]. f_equal. apply IH.
    + rewrite skipn_length. cbn [length] in *. lia.
    + rewrite skipn_length. cbn [length] in *. lia.
Qed.
Lemma chunks_nil : chunks n [] = [].
Proof. reflexivity. Qed.
Lemma chunks_app_full (c rest : list X) : length c = n -> chunks n (c ++ rest) = c :: chunks n rest.
Proof.
  intros Hc. unfold EncChunks.chunks. destruct c as [|x c']; [simpl in Hc; lia|].
  rewrite app_length. cbn [length Nat.add app EncChunks.chunks_fuel].
  change (x :: c' ++ rest) with ((x :: c') ++ rest). rewrite firstn_app, skipn_app, Hc, Nat.sub_diag.
  rewrite (firstn_all2 (x :: c')) by lia. rewrite (skipn_all2 (x :: c')) by lia. cbn [firstn skipn app]. rewrite app_nil_r.
  f_equal. apply chunks_fuel_more; cbn [length] in *; lia.
Qed.
Lemma chunks_last (c : list X) : 1 <= length c <= n -> chunks n c = [c].
Proof.
  intros Hc. unfold EncChunks.chunks. destruct c as [|x l]; [simpl in Hc; lia|]. cbn [length EncChunks.chunks_fuel].
  rewrite firstn_all2 by lia. rewrite skipn_all2 by lia. destruct (length l); reflexivity.
Qed.
Lemma chunks_prefix (cs : list (list X)) (tl : list X) : Forall (fun c => length c = n) cs -> chunks n (concat cs ++ tl) = cs ++ chunks n tl.
Proof.
  induction cs as [|c cs IH]; intros HF; [reflexivity|]. apply Forall_cons_iff in HF. destruct HF as [Hc HF'].
  cbn [concat]. rewrite <- app_assoc, chunks_app_full by assumption. cbn [app]. f_equal. apply IH. assumption.
Qed.

(* ---- for_each_chunk, the path for views with padded rows *)
Lemma fec_row_inv : forall fuel (row fill : list X) out, length row <= fuel -> Forall (fun c => length c = n) out -> length fill <= n ->
  Forall (fun c => length c = n) (snd (fec_row X fuel n row fill out)) /\ length (fst (fec_row X fuel n row fill out)) <= n /\
  concat (snd (fec_row X fuel n row fill out)) ++ fst (fec_row X fuel n row fill out) = concat out ++ fill ++ row.
Proof.
  induction fuel as [|fuel IH]; intros row fill out Hf HF Hl.
  - destruct row; [|simpl in Hf; lia]. cbn. rewrite app_nil_r. auto.
  - destruct row as [|x row]; [cbn; rewrite app_nil_r; auto|].
    cbn [fec_row]. set (st := if length fill =? n then ([], out ++ [fill]) else (fill, out)).
    assert (Hst : Forall (fun c => length c = n) (snd st) /\ length (fst st) < n /\ concat (snd st) ++ fst st = concat out ++ fill).
    { unfold st. destruct (length fill =? n) eqn:E; [apply Nat.eqb_eq in E | apply Nat.eqb_neq in E]; cbn [fst snd].
      - split; [apply Forall_app; split; [assumption|constructor; [assumption|constructor]]|]. split; [cbn; lia|].
        rewrite concat_app. cbn. rewrite !app_nil_r. reflexivity.
      - split; [assumption|]. split; [lia|reflexivity]. }
    destruct Hst as (H1 & H2 & H3).
    set (wp := Nat.min (length (x :: row)) (n - length (fst st))).
    assert (Hwp : 1 <= wp) by (unfold wp; cbn [length]; lia).
    specialize (IH (skipn wp (x :: row)) (fst st ++ firstn wp (x :: row)) (snd st)).
    destruct IH as (I1 & I2 & I3).
    + rewrite skipn_length. cbn [length] in *. lia.
    + assumption.
    + rewrite app_length, firstn_length. unfold wp. lia.
    + split; [assumption|]. split; [assumption|]. rewrite I3.
      rewrite <- (firstn_skipn wp (x :: row)) at 3. rewrite <- !app_assoc. rewrite !app_assoc. rewrite H3. rewrite <- !app_assoc. reflexivity.
Qed.

Theorem fec_rows_eq_contiguous (rows : list (list X)) : fec_rows X n rows = fec_contiguous X n rows.
Proof.
  unfold fec_rows, fec_contiguous.
  assert (Hgen : forall rows st0, Forall (fun c => length c = n) (snd st0) -> length (fst st0) <= n ->
     let st := fold_left (fun st row => fec_row X (length row) n row (fst st) (snd st)) rows st0 in
     Forall (fun c => length c = n) (snd st) /\ length (fst st) <= n /\ concat (snd st) ++ fst st = concat (snd st0) ++ fst st0 ++ concat rows).
  { clear rows. induction rows as [|row rows IH]; intros st0 HF Hl; cbn [fold_left concat].
    - rewrite app_nil_r. auto.
    - destruct (fec_row_inv (length row) row (fst st0) (snd st0) (le_n _) HF Hl) as (I1 & I2 & I3).
      destruct (IH (fec_row X (length row) n row (fst st0) (snd st0)) I1 I2) as (J1 & J2 & J3).
      cbn zeta in *. split; [exact J1|]. split; [exact J2|]. rewrite J3. rewrite app_assoc, I3. rewrite <- !app_assoc. reflexivity. }
  destruct (Hgen rows ([], []) (Forall_nil _) ltac:(cbn; lia)) as (F1 & F2 & F3). cbn zeta in *. cbn [concat app fst snd] in F3.
  rewrite <- F3. rewrite chunks_prefix by assumption.
  destruct (length (fst (fold_left (fun st row => fec_row X (length row) n row (fst st) (snd st)) rows ([], []))) =? 0) eqn:E.
  - apply Nat.eqb_eq in E. apply length_zero_iff_nil in E. rewrite E. rewrite chunks_nil, app_nil_r. reflexivity.
  - apply Nat.eqb_neq in E. rewrite chunks_last by lia. reflexivity.
Qed.
End Proofs.

(* ---- the sub-sampled encoder: per-row chunks of a multiple of the block width *)
Section Subsample.
Variables (X Y : Type) (bw : nat) (fblk : list X -> Y) (dX : X).
Hypothesis Hbw : 1 <= bw.
Notation sb := (subsample_blocks X Y bw fblk dX).

Lemma seq_shift_map' m k : seq m k = map (Nat.add m) (seq 0 k).
Proof.
  revert m. induction k as [|k IH]; intros m; [reflexivity|]. cbn [seq map]. rewrite Nat.add_0_r. f_equal.
  rewrite (IH (S m)), <- seq_shift, map_map. apply map_ext. intros a. lia.
Qed.
Lemma last_app_ne (a b : list X) d : b <> [] -> last (a ++ b) d = last b d.
Proof.
  intros Hb. induction a as [|x a IH]; [reflexivity|]. cbn [app].
  destruct (a ++ b) as [|z r] eqn:E; [destruct a; [cbn in E; contradiction | discriminate]|].
  change (last (x :: z :: r) d) with (last (z :: r) d). exact IH.
Qed.

Lemma sb_app (c tl : list X) j : length c = j * bw ->
  sb (c ++ tl) = map (fun k => fblk (firstn bw (skipn (k * bw) c))) (seq 0 j) ++ sb tl.
Proof.
  intros Hc. unfold subsample_blocks. rewrite app_length, Hc.
  assert (Hfull : (j * bw + length tl) / bw = j + length tl / bw) by (rewrite Nat.add_comm, Nat.div_add by lia; lia).
  rewrite Hfull. set (ft := length tl / bw).
  replace (j * bw + length tl - (j + ft) * bw) with (length tl - ft * bw) by lia.
  rewrite seq_app, map_app, <- app_assoc. f_equal; [|f_equal].
  - apply map_ext_in. intros k Hk. apply in_seq in Hk. f_equal.
    rewrite skipn_app, firstn_app. rewrite skipn_length.
    replace (bw - (length c - k * bw)) with 0 by (rewrite Hc; nia). rewrite firstn_O, app_nil_r. reflexivity.
  - cbn [Nat.add]. rewrite (seq_shift_map' j ft), map_map. apply map_ext. intros k. f_equal.
    rewrite skipn_app. rewrite (skipn_all2 c) by (rewrite Hc; nia). cbn [app]. f_equal. f_equal. rewrite Hc. nia.
  - destruct (length tl - ft * bw =? 0) eqn:E; [reflexivity|]. apply Nat.eqb_neq in E. f_equal. f_equal.
    assert (tl <> []) by (intros ->; cbn in E; lia).
    rewrite skipn_app. rewrite (skipn_all2 c) by (rewrite Hc; nia). cbn [app].
    rewrite last_app_ne by assumption. f_equal. f_equal. rewrite Hc. nia.
Qed.
Lemma sb_nil : sb [] = [].
Proof. unfold subsample_blocks. cbn [length]. rewrite Nat.div_0_l by lia. reflexivity. Qed.
Lemma sb_full (c : list X) j : length c = j * bw -> sb c = map (fun k => fblk (firstn bw (skipn (k * bw) c))) (seq 0 j).
Proof.
  intros Hc. rewrite <- (app_nil_r c) at 1. rewrite (sb_app c [] j Hc).
  rewrite sb_nil. apply app_nil_r.
Qed.
Lemma sb_length (l : list X) : length (sb l) = (length l + bw - 1) / bw.
Proof.
  unfold subsample_blocks. rewrite app_length, map_length, seq_length.
  pose proof (Nat.div_mod (length l) bw ltac:(lia)) as E. pose proof (Nat.mod_upper_bound (length l) bw ltac:(lia)) as Hm.
  set (q := length l / bw) in *. set (r := length l mod bw) in *. rewrite (Nat.mul_comm bw q) in E.
  destruct (length l - q * bw =? 0) eqn:E0.
  - apply Nat.eqb_eq in E0. cbn [length].
    assert (H : q = (length l + bw - 1) / bw) by (apply (Nat.div_unique (length l + bw - 1) bw q (bw - 1)); [lia | rewrite (Nat.mul_comm bw q); lia]).
    lia.
  - apply Nat.eqb_neq in E0. cbn [length].
    assert (H : q + 1 = (length l + bw - 1) / bw) by (apply (Nat.div_unique (length l + bw - 1) bw (q + 1) (r - 1)); [lia | rewrite Nat.mul_add_distr_l, (Nat.mul_comm bw q); lia]).
    lia.
Qed.

Theorem subsample_row_eq (bufpx : nat) (row : list X) : bw <= bufpx ->
  subsample_row X Y bw fblk dX bufpx row = sb row /\ length (subsample_row X Y bw fblk dX bufpx row) = (length row + bw - 1) / bw.
Proof.
  intros Hbuf. assert (Hm : 1 <= bufpx / bw) by (apply Nat.div_le_lower_bound; lia).
  set (cp := bufpx / bw * bw). assert (Hcp : 1 <= cp) by (unfold cp; nia).
  assert (Hmain : forall fuel (l : list X), length l <= fuel -> concat (map sb (chunks_fuel X fuel cp l)) = sb l).
  { induction fuel as [|fuel IH]; intros l Hl.
    - destruct l; [cbn; symmetry; apply sb_nil|simpl in Hl; lia].
    - destruct l as [|x l]; [cbn; symmetry; apply sb_nil|]. cbn [EncChunks.chunks_fuel map concat].
      destruct (Nat.le_gt_cases (length (x :: l)) cp) as [Hle|Hgt].
      + rewrite firstn_all2, skipn_all2 by assumption. destruct fuel; cbn [EncChunks.chunks_fuel map concat]; apply app_nil_r.
      + assert (Hc : length (firstn cp (x :: l)) = bufpx / bw * bw) by (rewrite firstn_length; fold cp; lia).
        rewrite IH by (rewrite skipn_length; cbn [length] in *; lia).
        rewrite <- (firstn_skipn cp (x :: l)) at 3. rewrite (sb_app _ _ _ Hc), (sb_full _ _ Hc). reflexivity. }
  assert (E : subsample_row X Y bw fblk dX bufpx row = sb row) by (unfold subsample_row, EncChunks.chunks; fold cp; apply Hmain; lia).
  split; [exact E|]. rewrite E. apply sb_length.
Qed.
End Subsample.

(* ---- the number of chunks is the `chunk_count` the encoders divide their progress reports by:
   usize::div_ceil(pixels, buffer pixels) for the whole-image chunking, per row for the dither / sub-sampled encoders *)
Section Count.
Variables (X : Type) (n : nat).
Hypothesis Hn : 1 <= n.
Lemma chunks_fuel_length : forall fuel (l : list X), length l <= fuel -> length (chunks_fuel X fuel n l) = (length l + n - 1) / n.
Proof.
  induction fuel as [|fuel IH]; intros l Hl.
  - destruct l; [|simpl in Hl; lia]. cbn. symmetry. apply Nat.div_small. lia.
  - destruct l as [|x l]; [cbn; symmetry; apply Nat.div_small; lia|]. cbn [EncChunks.chunks_fuel length].
    rewrite IH by (rewrite skipn_length; cbn [length] in *; lia). rewrite skipn_length. cbn [length].
    destruct (Nat.le_gt_cases (S (length l)) n) as [Hle|Hgt].
    + replace (S (length l) - n) with 0 by lia. cbn [Nat.add]. rewrite (Nat.div_small (n - 1) n) by lia.
      assert (H : 1 = (S (length l) + n - 1) / n) by (apply (Nat.div_unique (S (length l) + n - 1) n 1 (S (length l) - 1)); lia).
      replace (S (length l + n) - 1) with (S (length l) + n - 1) by lia. exact H.
    + replace (S (length l) + n - 1) with (S (length l) - n + n - 1 + 1 * n) by lia. rewrite Nat.div_add by lia. lia.
Qed.
Theorem chunk_count_whole (rows : list (list X)) : length (fec_contiguous X n rows) = (length (concat rows) + n - 1) / n.
Proof. unfold fec_contiguous, EncChunks.chunks. apply chunks_fuel_length. lia. Qed.
Theorem chunk_count_rows (rows : list (list X)) w : Forall (fun r => length r = w) rows ->
  length (concat (map (EncChunks.chunks X n) rows)) = length rows * ((w + n - 1) / n).
Proof.
  intros HF. induction rows as [|r rows IH]; [reflexivity|]. apply Forall_cons_iff in HF. destruct HF as [Hr HF].
  cbn [map concat length]. rewrite app_length, IH by assumption. unfold EncChunks.chunks at 1. rewrite chunks_fuel_length by lia. rewrite Hr. lia.
Qed.
(* a report `chunk_index / chunk_count` made before chunk `chunk_index` is processed is below 100% *)
Theorem report_below_one (count index : nat) : index < count -> index * 1 < count * 1 /\ 0 <= index.
Proof. lia. Qed.
End Count.

(* the chunks partition the pixel sequence: whatever the buffer size and the row pitch, what is encoded is the row-major
   pixel sequence of the image, each pixel exactly once and in order *)
Section Partition.
Variables (X : Type) (n : nat).
Hypothesis Hn : 1 <= n.
Lemma chunks_fuel_concat : forall fuel (l : list X), length l <= fuel -> concat (chunks_fuel X fuel n l) = l.
Proof.
  induction fuel as [|fuel IH]; intros l Hl.
  - destruct l; [reflexivity|simpl in Hl; lia].
  - destruct l as [|x l]; [reflexivity|]. cbn [EncChunks.chunks_fuel concat].
    rewrite IH by (rewrite skipn_length; cbn [length] in *; lia). apply firstn_skipn.
Qed.
Theorem chunks_partition (rows : list (list X)) : concat (fec_rows X n rows) = concat rows /\ concat (fec_contiguous X n rows) = concat rows.
Proof.
  rewrite (fec_rows_eq_contiguous X n Hn). split; unfold fec_contiguous, EncChunks.chunks; apply chunks_fuel_concat; lia.
Qed.
End Partition.
