(* Extraction of the executable model for the bulk correspondence runner.
   ExtrOcamlBasic only: bool, option, list, prod, unit, sumbool mapped to OCaml types;
   N / Z / positive stay the inductive types.  No Extract Constant. *)
From Coq Require Import ZArith.
From DDSV Require Import model.Dispatch.
Require Import ExtrOcamlBasic.
Extraction Language OCaml.
Extraction "extract/model.ml" run_case Z.add Z.mul Z.div Z.modulo Z.compare Z.opp.
