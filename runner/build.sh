#!/bin/bash
# builds runner/_build/runner from the extracted model (coq/extract/model.ml{,i}) and driver.ml
set -e
cd "$(dirname "$0")"
mkdir -p _build
if [ ! -f _build/runner ] || [ ../coq/extract/model.ml -nt _build/runner ] || [ driver.ml -nt _build/runner ]; then
  cp ../coq/extract/model.ml ../coq/extract/model.mli driver.ml _build/
  (cd _build && ocamlfind ocamlopt -O3 -w -a model.mli model.ml driver.ml -o runner 2>/dev/null || ocamlfind ocamlopt -w -a model.mli model.ml driver.ml -o runner)
fi
