(* Line driver around the extracted model.
   Input (stdin), one case per line:   <tag> <arg> <arg> ... | <expected> <expected> ...
   all integers in decimal.  For each line the model's run_case is evaluated and compared with the
   expected list (the implementation's observation).  Mismatches are printed as
   "MISMATCH <lineno> model=<..>"; the last line is "DONE <cases> <mismatches>".
   With argument "print" the model output is printed for every line instead of compared. *)
open Model

let rec pos_of_int (n : int) : positive =
  if n = 1 then XH
  else if n land 1 = 0 then XO (pos_of_int (n lsr 1))
  else XI (pos_of_int (n lsr 1))

let z_of_small (n : int) : z =
  if n = 0 then Z0 else if n > 0 then Zpos (pos_of_int n) else Zneg (pos_of_int (-n))

(* decimal string -> z, arbitrary size, via chunks of 9 digits *)
let z_of_string (s : string) : z =
  let neg = String.length s > 0 && s.[0] = '-' in
  let s = if neg then String.sub s 1 (String.length s - 1) else s in
  let acc = ref Z0 in
  let ten9 = z_of_small 1000000000 in
  let n = String.length s in
  let i = ref 0 in
  let first = n mod 9 in
  if first > 0 then begin
    acc := z_of_small (int_of_string (String.sub s 0 first)); i := first end;
  while !i < n do
    let chunk = int_of_string (String.sub s !i 9) in
    acc := Z.add (Z.mul !acc ten9) (z_of_small chunk);
    i := !i + 9
  done;
  if neg then Z.opp !acc else !acc

let rec int_of_pos (p : positive) : int =
  match p with XH -> 1 | XO q -> 2 * int_of_pos q | XI q -> 2 * int_of_pos q + 1

(* z -> decimal string (arbitrary size) *)
let string_of_z (x : z) : string =
  let rec pos_digits (p : z) (acc : string list) =
    (* p >= 0 *)
    match p with
    | Z0 -> acc
    | _ ->
      let ten9 = z_of_small 1000000000 in
      let q = Z.div p ten9 and r = Z.modulo p ten9 in
      let ri = (match r with Z0 -> 0 | Zpos pp -> int_of_pos pp | Zneg _ -> 0) in
      (match q with
       | Z0 -> string_of_int ri :: acc
       | _ -> pos_digits q (Printf.sprintf "%09d" ri :: acc))
  in
  match x with
  | Z0 -> "0"
  | Zpos _ -> String.concat "" (pos_digits x [])
  | Zneg p -> "-" ^ String.concat "" (pos_digits (Zpos p) [])

let rec z_eq (a : z) (b : z) = (Z.compare a b = Eq)
let rec zl_eq a b = match a, b with
  | [], [] -> true
  | x :: a', y :: b' -> z_eq x y && zl_eq a' b'
  | _ -> false

let split_ws s = List.filter (fun t -> t <> "") (String.split_on_char ' ' s)

let () =
  let print_mode = Array.length Sys.argv > 1 && Sys.argv.(1) = "print" in
  let cases = ref 0 and bad = ref 0 and lineno = ref 0 in
  (try
    while true do
      let line = input_line stdin in
      incr lineno;
      if String.length line > 0 && line.[0] <> '#' then begin
        let (lhs, rhs) =
          match String.index_opt line '|' with
          | Some i -> (String.sub line 0 i, String.sub line (i+1) (String.length line - i - 1))
          | None -> (line, "") in
        match split_ws lhs with
        | [] -> ()
        | tag :: args ->
          incr cases;
          let out = run_case (z_of_string tag) (List.map z_of_string args) in
          if print_mode then
            print_endline (String.concat " " (List.map string_of_z out))
          else begin
            let exp = List.map z_of_string (split_ws rhs) in
            if not (zl_eq out exp) then begin
              incr bad;
              if !bad <= 200 then
                Printf.printf "MISMATCH %d model=%s\n" !lineno (String.concat " " (List.map string_of_z out))
            end
          end
      end
    done
  with End_of_file -> ());
  Printf.printf "DONE %d %d\n" !cases !bad
